#!/bin/sh
# Offline bootstrap of the check environment: an overlay of /venv (python 3.12 with
# usim's own dependencies) plus z3-solver from the local wheelhouse.
# Idempotent; used by MANIFEST.setup_cmd and by run.sh on demand.
set -e
here="$(cd "$(dirname "$0")" && pwd)"
env="$here/.env"
if [ -x "$env/bin/python" ] && "$env/bin/python" -c "import z3, sortedcontainers, asyncstdlib" 2>/dev/null; then
    exit 0
fi
rm -rf "$env"
/venv/bin/python -m venv "$env"
sp="$("$env/bin/python" -c 'import site; print(site.getsitepackages()[0])')"
echo "import site; site.addsitedir('/venv/lib/python3.12/site-packages')" > "$sp/_venv_overlay.pth"
PIP_NO_INDEX=1 "$env/bin/python" -m pip install -q --no-index --find-links /opt/veriftools/wheels z3-solver
"$env/bin/python" -c "import z3, sortedcontainers, asyncstdlib; print('verif env ready, z3', z3.get_version_string())"
