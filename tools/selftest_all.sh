#!/bin/sh
# vacuity guard: every family of every check must yield a reproduced violation for prove(False)
cd "$(dirname "$0")/.."
for i in $(seq -w 1 20); do
  ./run.sh selftest C$i quick > /tmp/sxv_selftest_C$i.log 2>&1; rc=$?
  echo "C$i selftest exit=$rc $(grep -c HARNESS-ERROR /tmp/sxv_selftest_C$i.log) harness errors"
done
