#!/usr/bin/env python3
"""tools/dbg_family.py CNN family [tier] [seconds]: explore one family inline (no worker pool)
for a few seconds and print the path rate and the first issues - for harness development"""
import sys
import time

sys.path.insert(0, '/verif')
sys.path.insert(0, '/repo')
from sxv import explore as X   # noqa

pid, fam = sys.argv[1], sys.argv[2]
tier = sys.argv[3] if len(sys.argv) > 3 else 'quick'
secs = float(sys.argv[4]) if len(sys.argv) > 4 else 20.0
t = time.time()
r = X._subtree_(('sxv.props.%s' % pid.lower(), fam, tier, [], [], secs, 10 ** 6, 0, 0, False, 0,
                 False))
print(r['paths'], 'paths', r['status'], 'leftover', len(r['leftover']), 'depth', r['max_depth'],
      r['stats'], '%.1fs' % (time.time() - t))
for i in r['issues'][:3]:
    print(i['status'], i['detail'][-1200:])
for v in r['violations'][:3]:
    print(v['label'], v['inputs'], v['detail'][:300])
