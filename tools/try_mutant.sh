#!/bin/sh
# tools/try_mutant.sh <patch.diff> <CID> [tier] [extra args]: run one check against a patched /repo
p="$(realpath "$1")"; cid="$2"; tier="${3:-quick}"; shift; shift; shift 2>/dev/null
cd "$(dirname "$0")/.."
git -C /repo diff --quiet || { echo "/repo dirty"; exit 3; }
git -C /repo apply "$p" || { echo "patch does not apply"; exit 3; }
out=$(./run.sh check "$cid" "$tier" "$@" 2>&1); rc=$?
git -C /repo checkout -- .
# evidence was rewritten by a run on a patched tree: restore the committed one
git checkout -- evidence 2>/dev/null
echo "$out" | grep -E "^(VIOLATION|HARNESS-ERROR|INCONCLUSIVE|KNOWN)" | cut -c1-330 | head -6
echo "exit=$rc"
