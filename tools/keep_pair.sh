#!/bin/sh
# tools/keep_pair.sh CNN X Y ... : confirm + trial the seeded changes X, Y of one property, one after the other
cd "$(dirname "$0")/.."
p="$1"; shift
git -C /tmp/wt/$p checkout -- . 2>/dev/null
for x in "$@"; do
  .env/bin/python tools/keep_mutant.py /tmp/wt/$p $x $p > /tmp/wt/$p.$x.keep 2>&1
done
