#!/bin/sh
# tools/try_mutant_wt.sh <worktree> <patch.diff> <CID> [tier] [extra args]
# Run one check against a patched *scratch worktree* (USIM_REPO), leaving /repo and the
# committed evidence alone, so that several trials can run in parallel.
wt="$(realpath "$1")"; p="$(realpath "$2")"; cid="$3"; tier="${4:-quick}"; shift; shift; shift; shift 2>/dev/null
cd "$(dirname "$0")/.."
git -C "$wt" diff --quiet || { echo "$wt dirty"; exit 3; }
git -C "$wt" apply "$p" || { echo "patch does not apply"; exit 3; }
out="/tmp/sxv_out_$$"; mkdir -p "$out"
res=$(USIM_REPO="$wt" VERIF_OUT="$out" ./run.sh check "$cid" "$tier" "$@" 2>&1); rc=$?
git -C "$wt" checkout -- .
rm -rf "$out"
echo "$res" | grep -E "^(VIOLATION|HARNESS-ERROR|INCONCLUSIVE|KNOWN)" | cut -c1-330 | head -6
echo "exit=$rc"
