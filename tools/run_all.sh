#!/bin/sh
# tools/run_all.sh [quick|thorough] [ids...] : run the registered checks one after the other
cd "$(dirname "$0")/.."
tier="${1:-quick}"; shift
ids="$*"
[ -z "$ids" ] && ids=$(python3 -c "import json;print(' '.join(c['property_id'] for c in json.load(open('MANIFEST.json'))['checks']))")
for id in $ids; do
  s=$(date +%s)
  ./run.sh check $id $tier > /tmp/sxv_$id.$tier.log 2>&1; rc=$?
  e=$(date +%s)
  echo "$id $tier exit=$rc $((e-s))s  $(tail -1 /tmp/sxv_$id.$tier.log | cut -c1-160)"
done
