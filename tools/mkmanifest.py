#!/usr/bin/env python3
"""regenerates MANIFEST.json from the property modules present in sxv/props"""
import json
import os
import sys

HERE = os.path.dirname(os.path.dirname(os.path.abspath(__file__)))
sys.path.insert(0, HERE)
from sxv.claims import CLAIMS, NOT_APPLICABLE, FIX_COMMITS   # noqa

TECH = ('solver-based: symbolic execution of the real usim sources under CPython with z3 terms '
        'as numbers; every comparison decided by z3, exhaustive path closure within stated '
        'bounds; obligations discharged as unsat(path condition and not phi); counterexamples '
        'replayed concretely on the real code')

props = [json.loads(l) for l in open(os.path.join(HERE, 'properties.jsonl'))]
checks = []
for p in props:
    pid = p['id']
    if pid not in CLAIMS:
        continue
    c = CLAIMS[pid]
    checks.append({
        'property_id': pid,
        'quick_cmd': './run.sh check %s quick' % pid,
        'thorough_cmd': './run.sh check %s thorough' % pid,
        'evidence_file': 'evidence/%s.json' % pid,
        'replay_cmd_template': './run.sh replay {path}',
        'engine': 'sxv',
        'level_claimed': {
            'category': 'model_checking',
            'text': c['text'],
            'design_ref': c.get('design_ref', 'DESIGN.md section 5 (%s)' % pid),
        },
        'level_note': c['note'],
        'technique': TECH,
    })
na = [{'property_id': p['id'], 'reason': NOT_APPLICABLE.get(p['id'], 'check not built yet')}
      for p in props if p['id'] not in CLAIMS]
m = {
    'version': 1,
    'setup_cmd': 'sh ./setup.sh',
    'hooks': {
        'guard': 'USIM_VERIF',
        'enable': 'no source hooks: the checks monkeypatch call-through monitors onto '
                  'Loop/Interrupt in their own process (sxv/probe.py); run.sh exports '
                  'USIM_VERIF=1 nominally',
        'baseline_off_cmd': 'cd /repo && /venv/bin/python -m pytest -ra -q -p no:cacheprovider '
                            '--timeout=900 --continue-on-collection-errors',
        'source_commits': [],
        'add_only': True,
    },
    'engines': [{
        'name': 'sxv',
        'path': 'sxv/',
        'serves_properties': sorted(CLAIMS),
        'kind_free_text': 'own z3-backed symbolic executor for Python numbers running the real '
                          'usim code (DESIGN.md section 3); cvc5 re-decides a sample of queries '
                          'in the thorough tier',
    }],
    'checks': checks,
    'not_applicable': na,
    'notes': 'Bounded claims only (bounds per family in each evidence file). Genuine defects '
             'repaired in /repo by fix: commits %s; see known_findings.json and DESIGN.md '
             'section 6/7.' % ', '.join(FIX_COMMITS),
}
json.dump(m, open(os.path.join(HERE, 'MANIFEST.json'), 'w'), indent=1)
print('MANIFEST.json: %d checks, %d not applicable' % (len(checks), len(na)))
