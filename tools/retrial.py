#!/usr/bin/env python3
"""tools/retrial.py <slot worktree> <seeded id>... : run the quick check of each seeded change's
property against the change (patched scratch worktree) and record the verdict in its meta.json
(`checks`; the verdict of the first trial is kept as `first_trial`)."""
import json, os, subprocess, sys

HERE = os.path.dirname(os.path.dirname(os.path.abspath(__file__)))
wt = sys.argv[1]
for mid in sys.argv[2:]:
    d = os.path.join(HERE, 'seeded', mid)
    meta = json.load(open(os.path.join(d, 'meta.json')))
    prop = meta['breaks_property']
    r = subprocess.run([os.path.join(HERE, 'tools/try_mutant_wt.sh'), wt,
                        os.path.join(d, 'patch.diff'), prop, 'quick'], capture_output=True, text=True)
    lines = r.stdout.strip().splitlines()
    if 'first_trial' not in meta:
        meta['first_trial'] = meta.get('checks')
    meta['checks'] = {prop: {'exit': lines[-1] if lines else '', 'first': [l[:260] for l in lines[:3]]}}
    meta['checks_verif_commit'] = subprocess.run(['git', '-C', HERE, 'rev-parse', '--short', 'HEAD'],
                                                 capture_output=True, text=True).stdout.strip()
    json.dump(meta, open(os.path.join(d, 'meta.json'), 'w'), indent=1)
    print(mid, meta['checks'][prop]['exit'], (meta['checks'][prop]['first'] or [''])[0][:150], flush=True)
