#!/bin/sh
# tools/with_patch.sh <patch.diff> <command...>  : apply patch to /repo, run command, always restore
p="$(realpath "$1")"; shift
git -C /repo diff --quiet || { echo "/repo working tree not clean" >&2; exit 3; }
git -C /repo apply "$p" || { echo "patch does not apply" >&2; exit 3; }
"$@"; rc=$?
git -C /repo checkout -- . 
exit $rc
