#!/usr/bin/env python3
"""tools/keep_mutant.py <worktree> <A|B|name> <PROPERTY> [check ids...]
Confirms a sub-agent's seeded change in its scratch worktree (patch applies, unedited test
suite passes with it, demo fails with it and passes without it), runs the given checks
against it on /repo, and files it under /verif/seeded/<PROPERTY>-<name>/ ."""
import json, os, shutil, subprocess, sys

HERE = os.path.dirname(os.path.dirname(os.path.abspath(__file__)))
wt, name, prop = sys.argv[1:4]
checks = sys.argv[4:] or [prop]
src = os.path.join(wt, '_mutant', name)
patch = os.path.join(src, 'patch.diff')
env = dict(os.environ, PYTHONPATH=wt)


def sh(cmd, **kw):
    return subprocess.run(cmd, shell=True, capture_output=True, text=True, env=env, **kw)


assert sh('git -C %s status --porcelain --untracked-files=no' % wt).stdout.strip() == '', 'worktree dirty'
demo_clean = sh('/venv/bin/python %s/demo.py' % src, cwd=wt).returncode
assert sh('git -C %s apply %s' % (wt, patch)).returncode == 0, 'patch does not apply'
try:
    t = sh('/venv/bin/python -m pytest -q -p no:cacheprovider --timeout=900 '
           '--continue-on-collection-errors 2>&1 | tail -1', cwd=wt).stdout.strip()
    demo_mut = sh('/venv/bin/python %s/demo.py' % src, cwd=wt)
finally:
    sh('git -C %s checkout -- .' % wt)
ok = demo_clean == 0 and demo_mut.returncode != 0 and '251 passed' in t and ' failed' not in t and ' error' not in t
results = {}
for cid in checks:
    r = subprocess.run([os.path.join(HERE, 'tools/try_mutant_wt.sh'), wt, patch, cid, 'quick'],
                       capture_output=True, text=True)
    lines = r.stdout.strip().splitlines()
    results[cid] = {'exit': lines[-1] if lines else '', 'first': [l[:260] for l in lines[:3]]}
dst = os.path.join(HERE, 'seeded', '%s-%s' % (prop, name))
os.makedirs(dst, exist_ok=True)
for f in ('patch.diff', 'demo.py', 'notes.md'):
    if os.path.exists(os.path.join(src, f)):
        shutil.copy(os.path.join(src, f), os.path.join(dst, f))
notes = open(os.path.join(src, 'notes.md')).read() if os.path.exists(os.path.join(src, 'notes.md')) else ''
meta = {
    'breaks_property': prop,
    'origin': 'fresh sub-agent given only the property text and a scratch worktree',
    'needs_to_manifest': notes[:1500],
    'confirmed': {
        'patch_applies': True, 'test_suite_with_patch': t,
        'demo_exit_clean_tree': demo_clean, 'demo_exit_with_patch': demo_mut.returncode,
        'demo_message': (demo_mut.stdout + demo_mut.stderr).strip().splitlines()[-1:][:1],
        'all_confirmed': ok,
    },
    'ran': ['git apply patch.diff in scratch worktree; pytest (BASELINE command); demo.py with '
            'and without the patch; tools/try_mutant_wt.sh <worktree> patch.diff <check> quick (USIM_REPO = the patched scratch worktree)'],
    'checks': results,
    'repo_head': subprocess.run(['git', '-C', '/repo', 'rev-parse', '--short', 'HEAD'],
                                capture_output=True, text=True).stdout.strip(),
}
json.dump(meta, open(os.path.join(dst, 'meta.json'), 'w'), indent=1)
print(prop, name, 'confirmed' if ok else 'NOT-CONFIRMED', t, demo_clean, demo_mut.returncode,
      {k: v['exit'] for k, v in results.items()})
