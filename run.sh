#!/bin/sh
# ./run.sh check C01 quick|thorough     decide one property on /repo's working tree
# ./run.sh replay <file>                re-run one counterexample concretely
# ./run.sh selftest C01                 vacuity twins: every family must produce a reproduced violation
here="$(cd "$(dirname "$0")" && pwd)"
sh "$here/setup.sh" >&2 || { echo "HARNESS-ERROR: environment bootstrap failed" >&2; exit 2; }
cd "$here"
USIM_REPO="${USIM_REPO:-/repo}"
export USIM_REPO
export USIM_VERIF=1
export PYTHONPATH="$here:$USIM_REPO"
export PYTHONDONTWRITEBYTECODE=1
export PYTHONHASHSEED="${PYTHONHASHSEED:-0}"
exec "$here/.env/bin/python" -m sxv.cli "$@"
