"""independent re-decision of a sample of the z3 queries by the cvc5 binary (DESIGN 3.8)"""
import os
import random
import shutil
import subprocess
import tempfile


def crosscheck(dump, seed, limit=40):
    out = {'queries': 0, 'agree': 0, 'disagreements': 0, 'cvc5_unknown': 0, 'errors': 0,
           'binary': shutil.which('cvc5') or ''}
    if not dump or not out['binary']:
        return out
    rnd = random.Random(seed)
    sample = dump if len(dump) <= limit else rnd.sample(dump, limit)
    d = tempfile.mkdtemp(prefix='sxv-xcheck-')
    try:
        for i, (smt2, z3res) in enumerate(sample):
            p = os.path.join(d, 'q%d.smt2' % i)
            with open(p, 'w') as f:
                f.write('(set-logic ALL)\n' + smt2)
            try:
                r = subprocess.run([out['binary'], '--tlimit=10000', p], capture_output=True,
                                   text=True, timeout=30)
                txt = r.stdout + r.stderr
            except subprocess.TimeoutExpired:
                txt = 'unknown'
            out['queries'] += 1
            if '(error' in txt:
                out['errors'] += 1
                continue
            first = txt.strip().splitlines()[0].strip() if txt.strip() else 'unknown'
            if first not in ('sat', 'unsat'):
                out['cvc5_unknown'] += 1
            elif first == z3res:
                out['agree'] += 1
            elif z3res in ('sat', 'unsat'):
                out['disagreements'] += 1
    finally:
        shutil.rmtree(d, ignore_errors=True)
    return out
