"""
Parallel exhaustive exploration of a harness family (DESIGN 3.2 / 3.7).

A family is a python function `fn(E, **params)`.  The decision tree is explored depth-first
by re-execution; sub-trees are handed to worker processes with a small time budget and hand
their unexplored siblings back, which balances the load without shared state.
"""
import importlib
import multiprocessing as mp
import os
import sys
import time as _time
import zlib
from concurrent.futures import ProcessPoolExecutor, wait, FIRST_COMPLETED

from . import engine
from .engine import E, run_path, run_concrete, enc_inputs

REPO = os.path.realpath(os.environ.get('USIM_REPO', '/repo'))


class Family:
    def __init__(self, name, fn, quick=None, thorough=None, reach=(), bounds='', doc='',
                 nonrepro='error'):
        # nonrepro: what a counterexample that does not reproduce concretely means.  'error':
        # the encoding is wrong (exit 2).  'inconclusive': the family uses a symbolic stub (e.g.
        # a symbolic class hierarchy) that the concrete replay replaces by the real thing; a
        # non-reproducing counterexample is an artefact of the stub and is only counted.
        self.nonrepro = nonrepro
        self.name = name
        self.fn = fn
        self.tiers = {'quick': quick, 'thorough': thorough}
        self.reach = tuple(reach)
        self.bounds = bounds
        self.doc = doc or (fn.__doc__ or '').strip()

    def config(self, tier):
        cfg = self.tiers.get(tier)
        if cfg is None:
            return None
        cfg = dict(cfg)
        opts = {
            'max_paths': cfg.pop('_max_paths', 400000),
            'max_wall': cfg.pop('_max_wall', 1500.0 if tier == 'quick' else 600.0),
            'validate_every': cfg.pop('_validate_every', 1 if tier == 'quick' else 7),
        }
        return cfg, opts


# ---- which usim functions were executed (sys.monitoring, fires once per code object)
_seen_code = set()
_TOOL = 3


def _mon_start():
    mon = sys.monitoring
    try:
        mon.use_tool_id(_TOOL, 'sxv')
    except ValueError:
        return
    prefix = os.path.join(REPO, 'usim') + os.sep

    def on_start(code, offset):
        fn = code.co_filename
        if fn.startswith(prefix):
            _seen_code.add('%s:%s' % (fn[len(prefix):], code.co_qualname))
        return mon.DISABLE
    mon.register_callback(_TOOL, mon.events.PY_START, on_start)
    mon.set_events(_TOOL, mon.events.PY_START)


_worker_state = {}


def _load(modname, famname):
    key = (modname, famname)
    if key not in _worker_state:
        mod = importlib.import_module(modname)
        fam = {f.name: f for f in mod.FAMILIES}[famname]
        _worker_state[key] = fam
    return _worker_state[key]


def _want_validate(prefix, every, seed):
    if not every:
        return False
    if every == 1:
        return True
    h = zlib.crc32(bytes(prefix)) + seed
    return h % every == 0


def _subtree(task):
    try:
        return _subtree_(task)
    except BaseException:
        import traceback
        raise RuntimeError('worker failed:\n' + traceback.format_exc())


def _subtree_(task):
    """worker: DFS below one prefix until the time budget is used; returns aggregate"""
    import warnings
    warnings.filterwarnings('ignore', category=RuntimeWarning)
    if 'stderr' not in _worker_state:
        # "Exception ignored in ..." chatter of finalizers (abandoned coroutines are closed by
        # the garbage collector between paths) goes to a scratch file, not to the verdict
        _worker_state['stderr'] = True
        try:
            d = os.path.join(os.path.dirname(os.path.dirname(os.path.abspath(__file__))), '.scratch')
            os.makedirs(d, exist_ok=True)
            fd = os.open(os.path.join(d, 'worker-stderr.log'),
                         os.O_WRONLY | os.O_CREAT | os.O_TRUNC)
            os.dup2(fd, 2)
        except OSError:
            pass
    (modname, famname, tier, prefix, terms, budget_s, budget_paths, every, seed,
     selftest, dump_max, want_digest) = task
    if not _seen_code and 'mon' not in _worker_state:
        _worker_state['mon'] = True
        _mon_start()
    fam = _load(modname, famname)
    params, _ = fam.config(tier)
    fn = fam.fn
    if selftest:
        inner = fn

        def fn(E_, **p):       # the assert(false) twin: must yield a reproduced violation
            inner(E_, **p)
            E_.prove(False, 'SELFTEST-unreachable-end')
    E.stats_reset()
    if dump_max:
        E.dump, E.dump_max = [], dump_max
    t0 = _time.perf_counter()
    stack = [(prefix, terms)]
    agg = {
        'paths': 0, 'status': {}, 'violations': [], 'n_violation_paths': 0, 'reached': set(),
        'validated': 0, 'samples': [], 'nontrivial': 0, 'max_depth': 0, 'issues': [],
        'labels': {}, 'digests': [],
    }
    seen_before = len(_seen_code)
    while stack:
        if agg['paths'] >= budget_paths or _time.perf_counter() - t0 > budget_s:
            break
        pfx, tms = stack.pop()
        validate = _want_validate(pfx, every, seed)
        want_sample = len(agg['samples']) < 1 and agg['paths'] % 5 == 0
        r = run_path(fn, params, pfx, tms, validate=validate, want_sample=want_sample,
                     want_digest=want_digest)
        if r.key is not None:
            agg['digests'].append((r.key, r.digest))
        agg['paths'] += 1
        agg['status'][r.status] = agg['status'].get(r.status, 0) + 1
        agg['reached'] |= r.reached
        agg['validated'] += r.validated
        agg['nontrivial'] += 1 if r.nontrivial else 0
        agg['max_depth'] = max(agg['max_depth'], r.trace_len)
        if r.sample:
            agg['samples'].append(r.sample)
        if r.status not in ('ok', 'void') and len(agg['issues']) < 5:
            agg['issues'].append({'status': r.status, 'detail': r.detail[-1500:],
                                  'prefix_len': len(pfx)})
        if r.violations:
            agg['n_violation_paths'] += 1
        for v in r.violations:
            agg['labels'][v.label] = agg['labels'].get(v.label, 0) + 1
            # replay on the real code with plain numbers before anything is reported
            c = run_concrete(fn, params, v.inputs)
            if v.label not in c['failed'] and not selftest and \
                    sum(1 for x in agg['violations'] if x.get('fresh_process')) < 3:
                # the worker process has run many symbolic paths: whatever the code under test
                # keeps per process / per thread may hide (or fake) the effect here.  Ask a
                # fresh interpreter before the counterexample is called non-reproducing.
                fresh = _replay_in_fresh_process(modname, famname, tier, v)
                if fresh is not None:
                    c = dict(c, failed=list(c['failed']) + ([v.label] if fresh else []))
                    c['fresh_process'] = True
            rec = {
                'label': v.label, 'inputs': enc_inputs(v.inputs), 'detail': v.detail,
                'reproduced': v.label in c['failed'], 'concrete_failed': c['failed'],
                'concrete_status': c['status'],
                'concrete_detail': c['detail'][-800:] if c['status'] != 'ok' else '',
                'fresh_process': bool(c.get('fresh_process')),
            }
            agg['violations'].append(rec)
        stack.extend(r.alts)
    agg['leftover'] = stack
    agg['stats'] = {
        'q_sat': E.q_sat, 'q_unsat': E.q_unsat, 'q_unknown': E.q_unknown,
        'solver_s': E.solver_s, 'decisions': E.n_decisions, 'forks': E.n_forks,
        'obligations': E.n_obligations, 'discharged': E.n_discharged,
    }
    agg['functions'] = sorted(_seen_code) if len(_seen_code) != seen_before or True else []
    agg['dump'] = E.dump or []
    E.dump = None
    return agg


def _replay_in_fresh_process(modname, famname, tier, v):
    """True / False: the counterexample does / does not reproduce in a fresh interpreter
    (`sxv.cli replay`), None if that could not be decided"""
    import json
    import subprocess
    import sys
    import tempfile
    here = os.path.dirname(os.path.dirname(os.path.abspath(__file__)))
    pid = modname.rsplit('.', 1)[-1].upper()
    fd, path = tempfile.mkstemp(suffix='.json', prefix='sxv-replay-')
    try:
        with os.fdopen(fd, 'w') as f:
            json.dump({'property': pid, 'family': famname, 'tier': tier, 'label': v.label,
                       'inputs': enc_inputs(v.inputs)}, f)
        r = subprocess.run([sys.executable, '-m', 'sxv.cli', 'replay', path], cwd=here,
                           capture_output=True, text=True, timeout=300)
        if r.returncode == 1 and 'reproduced' in r.stdout:
            return True
        if r.returncode == 0:
            return False
        return None
    except Exception:      # noqa
        return None
    finally:
        try:
            os.remove(path)
        except OSError:
            pass


def explore(modname, fam, tier, seed=0, workers=None, selftest=False, dump_max=0,
            classify=None, want_digest=False):
    """explore one family exhaustively (within its budget); returns a report dict"""
    params, opts = fam.config(tier)
    workers = workers or int(os.environ.get("VERIF_WORKERS", "0")) or \
        (12 if tier == "quick" else 16)
    t0 = _time.perf_counter()
    rep = {
        'family': fam.name, 'params': {k: repr(v) for k, v in params.items()},
        'bounds': fam.bounds, 'paths': 0, 'status': {}, 'violations': [],
        'n_violation_paths': 0, 'reached': set(), 'validated': 0, 'samples': [],
        'nontrivial': 0, 'max_depth': 0, 'issues': [], 'functions': set(), 'labels': {},
        'q_sat': 0, 'q_unsat': 0, 'q_unknown': 0, 'solver_s': 0.0, 'decisions': 0, 'forks': 0,
        'obligations': 0, 'discharged': 0, 'dump': [], 'known_hits': {}, 'digests': {},
    }
    work = [([], [])]
    pending = set()
    stopped = None
    ctx = mp.get_context('fork')
    with ProcessPoolExecutor(max_workers=workers, mp_context=ctx) as pool:
        while work or pending:
            elapsed = _time.perf_counter() - t0
            if stopped is None:
                if rep['paths'] >= opts['max_paths']:
                    stopped = 'path budget (%d) reached' % opts['max_paths']
                elif elapsed > opts['max_wall']:
                    stopped = 'wall budget (%ds) reached' % opts['max_wall']
            while work and stopped is None and len(pending) < workers * 2:
                pfx, tms = work.pop()
                # small first slices spread the tree quickly, then 1.5 s slices
                budget_s = 0.15 if rep['paths'] < workers * 8 else 1.5
                want_dump = dump_max if len(rep['dump']) < dump_max else 0
                pending.add(pool.submit(_subtree, (
                    modname, fam.name, tier, pfx, tms, budget_s, 2000,
                    opts['validate_every'], seed, selftest, want_dump, want_digest)))
            if not pending:
                break
            done, pending = wait(pending, return_when=FIRST_COMPLETED)
            for f in done:
                a = f.result()
                rep['paths'] += a['paths']
                for k, v in a['status'].items():
                    rep['status'][k] = rep['status'].get(k, 0) + v
                for k, v in a['labels'].items():
                    rep['labels'][k] = rep['labels'].get(k, 0) + v
                rep['n_violation_paths'] += a['n_violation_paths']
                for v in a['violations']:
                    kid = classify(v) if (classify and v['reproduced']) else None
                    if kid is not None:
                        rep['known_hits'][kid] = rep['known_hits'].get(kid, 0) + 1
                    elif sum(1 for w in rep['violations'] if w['label'] == v['label']) < 40:
                        rep['violations'].append(v)
                for k, dg in a['digests']:
                    rep['digests'].setdefault(k, []).append(dg)
                rep['reached'] |= a['reached']
                rep['validated'] += a['validated']
                rep['nontrivial'] += a['nontrivial']
                rep['max_depth'] = max(rep['max_depth'], a['max_depth'])
                if len(rep['samples']) < 3:
                    rep['samples'].extend(a['samples'][:1])
                if len(rep['issues']) < 8:
                    rep['issues'].extend(a['issues'])
                rep['functions'] |= set(a['functions'])
                if len(rep['dump']) < dump_max:
                    rep['dump'].extend(a['dump'])
                for k, v in a['stats'].items():
                    rep[k] += v
                work.extend(a['leftover'])
    rep['leftover'] = len(work)
    rep['stopped'] = stopped
    rep['wall_s'] = _time.perf_counter() - t0
    rep['exhaustive'] = (
        stopped is None and not work and
        all(k in ('ok', 'void') for k in rep['status'])
    )
    rep['unreached'] = [l for l in fam.reach if l not in rep['reached']]
    return rep
