"""
Call-through monitors on the real event loop (DESIGN 4.1).  Installed by monkeypatching the
classes of the usim that is imported from $USIM_REPO, in the check's own process; removed
after every simulation.  No source hook in /repo is needed.
"""
import contextlib
import signal as _signal
import threading as _threading

from usim._core import loop as _loop
from usim._core.loop import Loop, Interrupt
from usim._core.handler import __USIM_STATE__ as STATE

from .engine import E, EQ, GE, SNum


class Livelock(BaseException):
    """raised from outside any coroutine frame when one time step does not end"""


class RunawayRun(BaseException):
    pass


# Watchdog for a *single activation* that never ends (code under test spinning synchronously
# without ever suspending: no activation boundary is reached, so the counters above never see
# it).  Wall-clock budgets; only armed in the main thread (signals are delivered there).
SPIN_BUDGET_SYMBOLIC = 90.0     # an activation may contain many solver queries
SPIN_BUDGET_CONCRETE = 15.0
SPIN_BUDGET_AGAIN = 8.0


_spin_hits = [0]


def _on_spin(signum, frame):
    _spin_hits[0] += 1
    raise Livelock('one activation did not end within its wall-clock budget (synchronous spin)')


def _guarded_run(orig, loop, target, signal):
    if _threading.current_thread() is not _threading.main_thread():
        return orig(loop, target, signal)
    budget = SPIN_BUDGET_CONCRETE if E.concrete else SPIN_BUDGET_SYMBOLIC
    if _spin_hits[0]:
        # once the watchdog has fired in this process (which is an alarm already) later paths
        # running into the same spin are cut short
        budget = min(budget, SPIN_BUDGET_AGAIN)
    old = _signal.signal(_signal.SIGALRM, _on_spin)
    _signal.setitimer(_signal.ITIMER_REAL, budget)
    try:
        return orig(loop, target, signal)
    finally:
        _signal.setitimer(_signal.ITIMER_REAL, 0)
        _signal.signal(_signal.SIGALRM, old)


class Probe:
    """records activations / schedules of every Loop running while it is installed"""

    def __init__(self, step_bound=400, total_bound=6000, check_clock=True, check_fifo=False,
                 light=False):
        # light: keep no reference to targets / signals (only the livelock counters and the
        # hooks work) - for runs whose point is *when garbage is reclaimed* (C02)
        self.light = light
        self.check_fifo = check_fifo
        self.last_idx = {}         # loop -> schedule index of the last activation of this step
        self.step_bound = step_bound
        self.total_bound = total_bound
        self.check_clock = check_clock
        self.activations = []      # (loop, time, turn, target, signal)
        self.schedules = []        # [loop, due, target, signal, scheduler, done]
        self.signal_owner = {}     # id(signal) -> (signal, activity that created it)
        self.hooks = []            # callables run before every activation: hook(loop, target, signal)
        self.after_hooks = []      # after every activation
        self.last_time = {}        # loop -> time of last activation
        self.in_step = {}          # loop -> activations in this time step
        self.total = 0
        self.escaped = []          # exceptions that escaped an activation

    # -- wrappers
    def _run_coroutine(self, loop, target, signal=None):
        self.total += 1
        if self.total > self.total_bound:
            raise RunawayRun('more than %d activations' % self.total_bound)
        now = loop.time
        last = self.last_time.get(loop, None)
        if self.light:
            if last is None or not self._same(last, now):
                self.last_time[loop] = now
                self.in_step[loop] = 0
            self.in_step[loop] += 1
            if self.in_step[loop] > self.step_bound:
                raise Livelock('more than %d activations at time %r' % (self.step_bound, now))
            self.activations.append((loop, now, loop.turn, None, None))
            for h in self.hooks:
                h(loop, target, signal)
            return _guarded_run(self._orig_run, loop, target, signal)
        if last is None or not self._same(last, now):
            if last is not None and self.check_clock:
                E.prove(GE(now, last), 'clock-monotone',
                        ('clock went from %r to %r', last, now))
                # nothing that was due before `now` may still be queued
                for rec in self.schedules:
                    if rec[0] is loop and not rec[5] and (rec[3] is None or not rec[3]._revoked):
                        E.prove(GE(rec[1], now), 'no-work-left-behind',
                                ('activation due at %r still queued when clock reached %r', rec[1], now))
            self.last_time[loop] = now
            self.in_step[loop] = 0
            self.last_idx[loop] = -1
        self.in_step[loop] += 1
        if self.in_step[loop] > self.step_bound:
            raise Livelock('more than %d activations at time %r' % (self.step_bound, now))
        # match with the schedule record
        for idx, rec in enumerate(self.schedules):
            if rec[0] is loop and not rec[5] and rec[2] is target and rec[3] is signal:
                rec[5] = True
                if self.check_fifo:
                    # activities made runnable for one time run in the order they were made
                    # runnable: schedule-call indices increase within a time step
                    E.prove(idx > self.last_idx.get(loop, -1), 'fifo-turn-order',
                            ('activation scheduled as #%d ran after #%d in the time step %r',
                             idx, self.last_idx.get(loop, -1), now))
                    self.last_idx[loop] = idx
                if self.check_clock:
                    E.prove(EQ(rec[1], now), 'runs-at-due-time',
                            ('activation scheduled for %r ran at %r', rec[1], now))
                break
        self.activations.append((loop, now, loop.turn, target, signal))
        for h in self.hooks:
            h(loop, target, signal)
        try:
            return _guarded_run(self._orig_run, loop, target, signal)
        except BaseException as err:
            self.escaped.append(err)
            raise
        finally:
            for h in self.after_hooks:
                h(loop, target, signal)

    @staticmethod
    def _same(a, b):
        # the loop binds `time` once per time step, so object identity tells the steps apart in
        # every mode - also two consecutive steps at an equal float date (absorbed delay)
        return a is b

    def _schedule(self, loop, target, signal=None, *, delay=None, at=None):
        if self.light:
            return self._orig_schedule(loop, target, signal, delay=delay, at=at)
        if delay is None and at is None:
            due = loop.time
        elif delay is not None:
            due = loop.time + delay
        else:
            due = at
        self.schedules.append([loop, due, target, signal, loop.activity, False])
        return self._orig_schedule(loop, target, signal, delay=delay, at=at)

    def _interrupt_init(self, sig, *token):
        self._orig_int_init(sig, *token)
        if self.light:
            return
        try:
            act = STATE.loop.activity
        except RuntimeError:
            act = None
        self.signal_owner[id(sig)] = (sig, act)

    @contextlib.contextmanager
    def installed(self):
        self._orig_run = Loop._run_coroutine
        self._orig_schedule = Loop.schedule
        self._orig_int_init = Interrupt.__init__
        probe = self

        def _run_coroutine(loop, target, signal=None):
            return probe._run_coroutine(loop, target, signal)

        def schedule(loop, target, signal=None, *, delay=None, at=None):
            return probe._schedule(loop, target, signal, delay=delay, at=at)

        def __init__(sig, *token):
            probe._interrupt_init(sig, *token)
        Loop._run_coroutine = _run_coroutine
        Loop.schedule = schedule
        Interrupt.__init__ = __init__
        try:
            yield self
        finally:
            Loop._run_coroutine = self._orig_run
            Loop.schedule = self._orig_schedule
            Interrupt.__init__ = self._orig_int_init

    # -- queries
    def pending_unrevoked(self, loop=None):
        return [r for r in self.schedules
                if not r[5] and (r[3] is None or not r[3]._revoked)
                and (loop is None or r[0] is loop)]
