"""
sxv engine: z3-backed numeric proxies, depth-first path exploration by re-execution,
obligations, concrete replay.  See DESIGN.md section 3.

The code under test (the real usim, imported from $USIM_REPO) is executed by CPython.
Numbers fed in by a harness are `SNum` proxies; every comparison / truth test on them is
decided eagerly by z3 under the current path condition and returns a real `bool`.
"""
import gc
import os
import sys
import time as _time
import traceback
from fractions import Fraction

import z3

INF = float('inf')


class Q(Fraction):
    """exact rational used in concrete replays of Real-valued families: a Fraction that absorbs
    the (exactly representable) float constants of the code under test, e.g. `x * 1.0`, instead
    of degrading to float, so the concrete run follows the same exact arithmetic as the terms"""
    __slots__ = ()

    @staticmethod
    def _w(o):
        if isinstance(o, float):
            if o != o or o in (INF, -INF):
                return None
            return Fraction(o)
        return o

    def _bin(name):          # noqa
        op = getattr(Fraction, name)

        def f(self, other):
            o = Q._w(other)
            if o is None:
                return getattr(float, name)(float(self), other)
            r = op(self, o)
            if isinstance(r, Fraction) and not isinstance(r, Q):
                r = Q(r)
            return r
        f.__name__ = name
        return f
    for _n in ('__add__', '__radd__', '__sub__', '__rsub__', '__mul__', '__rmul__',
               '__truediv__', '__rtruediv__'):
        locals()[_n] = _bin(_n)
    del _n, _bin

    def __neg__(self):
        return Q(Fraction.__neg__(self))

    def __abs__(self):
        return Q(Fraction.__abs__(self))

    def __hash__(self):
        return Fraction.__hash__(self)

    def __repr__(self):
        return str(Fraction(self))
    __str__ = __repr__


class Unsupported(BaseException):
    """proxy used in a way the engine cannot model; the path is poisoned"""


class HarnessError(Exception):
    pass


class PathAbort(BaseException):
    """raised by the engine to end a path from harness level code (never inside usim frames)"""


def _sexpr(e):
    return e.sexpr()


# --------------------------------------------------------------------------- values
class SBool:
    """harness side symbolic truth value (never handed to usim)"""
    __slots__ = ('e',)

    def __init__(self, e):
        self.e = e

    def __bool__(self):
        return E.decide(self.e)

    def __repr__(self):
        if E.draining:
            return 'SBool(..)'      # see SNum.__repr__
        return 'SBool(%s)' % z3.simplify(self.e)


def _lift(o):
    """python number / proxy -> z3 term, None for +-inf / nan, NotImplemented otherwise"""
    if type(o) is SNum:
        return o.e
    if isinstance(o, bool):
        return z3.IntVal(int(o))
    if isinstance(o, int):
        return z3.IntVal(o)
    if isinstance(o, Fraction):
        return z3.RealVal(str(o)) if o.denominator != 1 else z3.RealVal(o.numerator)
    if isinstance(o, float):
        if o != o or o in (INF, -INF):
            return None
        f = Fraction(o)
        return z3.RealVal(str(f))
    return NotImplemented


F64 = z3.Float64()
_RNE = z3.RNE()


def _is_fp(e):
    return isinstance(e, z3.FPRef)


def _to_fp(e):
    """exact conversion of a numeric constant term to Float64 (IEEE mode of the engine)"""
    if _is_fp(e):
        return e
    c = z3.simplify(e)
    if z3.is_int_value(c):
        return z3.FPVal(float(c.as_long()), F64)
    if z3.is_rational_value(c):
        return z3.FPVal(float(Fraction(c.numerator_as_long(), c.denominator_as_long())), F64)
    E.poison('symbolic Int/Real mixed with IEEE float values')
    return z3.fpToFP(_RNE, z3.ToReal(e) if not e.is_real() else e, F64)


_FP_CMP = {
    'lt': z3.fpLT, 'le': z3.fpLEQ, 'gt': z3.fpGT, 'ge': z3.fpGEQ, 'eq': z3.fpEQ,
    'ne': lambda a, b: z3.Not(z3.fpEQ(a, b)),
}
_FP_AR = {
    'add': lambda a, b: z3.fpAdd(_RNE, a, b), 'sub': lambda a, b: z3.fpSub(_RNE, a, b),
    'mul': lambda a, b: z3.fpMul(_RNE, a, b), 'truediv': lambda a, b: z3.fpDiv(_RNE, a, b),
}


def fp_float(v):
    """z3 FP numeral -> python float (bit exact)"""
    import struct
    if v.isNaN():
        return float('nan')
    if v.isInf():
        return -INF if v.isNegative() else INF
    bits = ((1 if v.sign() else 0) << 63) | (v.exponent_as_long(True) << 52) | \
        v.significand_as_long()
    return struct.unpack('>d', struct.pack('>Q', bits))[0]



def _term_bounds(t):
    """(lo, hi) as Fractions for a linear Int / Real term over inputs with a declared box"""
    try:
        return _tb(t)
    except (KeyError, TypeError, ValueError, ZeroDivisionError):
        return None


def _tb(t):
    if z3.is_int_value(t):
        v = Fraction(t.as_long())
        return v, v
    if z3.is_rational_value(t):
        v = Fraction(t.numerator_as_long(), t.denominator_as_long())
        return v, v
    k = t.decl().kind()
    if z3.is_const(t) and k == z3.Z3_OP_UNINTERPRETED:
        lo, hi = E.ranges[t.decl().name()]
        return Fraction(lo), Fraction(hi)
    ch = [_tb(c) for c in t.children()]
    if k == z3.Z3_OP_ADD:
        return sum(c[0] for c in ch), sum(c[1] for c in ch)
    if k == z3.Z3_OP_SUB:
        return ch[0][0] - sum(c[1] for c in ch[1:]), ch[0][1] - sum(c[0] for c in ch[1:])
    if k == z3.Z3_OP_UMINUS:
        return -ch[0][1], -ch[0][0]
    if k == z3.Z3_OP_TO_REAL:
        return ch[0]
    if k == z3.Z3_OP_MUL and len(ch) == 2:
        prods = [a * b for a in ch[0] for b in ch[1]]
        return min(prods), max(prods)
    if k == z3.Z3_OP_ITE:
        return min(ch[1][0], ch[2][0]), max(ch[1][1], ch[2][1])
    raise ValueError('unsupported term')


def _float_cells(lo, hi, limit):
    """[(double f, upper end of the reals rounding to f, inclusive?)] covering [lo, hi] in
    ascending order (round to nearest, ties to even), or None if more than `limit`"""
    import math
    import struct
    f = float(lo)          # CPython: correctly rounded for int and Fraction
    cells = []
    while True:
        nxt = math.nextafter(f, math.inf)
        if nxt == math.inf:
            return None
        mid = (Fraction(f) + Fraction(nxt)) / 2
        even = struct.unpack('>Q', struct.pack('>d', f))[0] & 1 == 0
        cells.append((f, mid, even))
        if (mid > hi) or (mid == hi and even):
            return cells
        if len(cells) >= limit:
            return None
        f = nxt


def _inf_cmp(name, other):
    # finite symbolic value  <op>  +-inf / nan
    if other != other:
        return name == 'ne'
    pos = other > 0
    return {
        'lt': pos, 'le': pos, 'gt': not pos, 'ge': not pos, 'eq': False, 'ne': True,
    }[name]


def _cmp(name, op):
    def f(self, other):
        if _is_fp(self.e) and isinstance(other, float):
            o = z3.FPVal(other, F64)
        else:
            o = _lift(other)
        if o is NotImplemented:
            return NotImplemented
        if o is None:
            return _inf_cmp(name, other)
        if _is_fp(self.e) or _is_fp(o):
            return E.decide(_FP_CMP[name](_to_fp(self.e), _to_fp(o)))
        return E.decide(op(self.e, o))
    f.__name__ = '__%s__' % name
    return f


def _coerce(a, b):
    if a.is_real() and not b.is_real():
        b = z3.ToReal(b)
    elif b.is_real() and not a.is_real():
        a = z3.ToReal(a)
    return a, b


def _ar(name, op, swap=False):
    def f(self, other):
        if _is_fp(self.e) and isinstance(other, float):
            o = z3.FPVal(other, F64)      # IEEE mode: infinities are ordinary values
        else:
            o = _lift(other)
        if o is NotImplemented:
            return NotImplemented
        if o is not None and (_is_fp(self.e) or _is_fp(o)):
            a, b = _to_fp(self.e), _to_fp(o)
            return SNum(_FP_AR[name](b, a) if swap else _FP_AR[name](a, b))
        if o is None:
            if other != other:
                return other               # finite <op> nan = nan, whatever the finite value
            # x + inf, inf - x, ...: result is an infinity; only + and - are given a meaning
            if name == 'add':
                return other
            if name == 'sub':
                return other if swap else -other
            if name == 'truediv' and not swap and other == other:
                return 0.0                 # finite / +-inf
            if name == 'mul' and other == other:
                c = z3.simplify(self.e)
                if _is_const(c):
                    v = c.as_long() if z3.is_int_value(c) else \
                        Fraction(c.numerator_as_long(), c.denominator_as_long())
                    if v == 0:
                        return float('nan')        # 0 * inf, as IEEE
                    return other if v > 0 else -other
            E.poison('arithmetic %s with %r' % (name, other))
            raise Unsupported(name)
        a, b = _coerce(self.e, o)
        return SNum(op(b, a) if swap else op(a, b))
    f.__name__ = '__%s%s__' % ('r' if swap else '', name)
    return f


def _is_const(e):
    return z3.is_int_value(e) or z3.is_rational_value(e)


def _mul(a, b):
    if not (_is_const(z3.simplify(a)) or _is_const(z3.simplify(b))):
        E.poison('non-linear multiplication')
    return a * b


def _div(a, b):
    if not _is_const(z3.simplify(b)):
        E.poison('division by a symbolic value')
    a = a if a.is_real() else z3.ToReal(a)
    b = b if b.is_real() else z3.ToReal(b)
    return a / b


class SNum:
    """symbolic number (z3 Int or Real term) standing in for int / Fraction"""
    __slots__ = ('e',)

    def __init__(self, e):
        self.e = e

    def __hash__(self):
        # constant: dicts keyed by symbolic numbers degenerate to __eq__ chains -> solver
        return 0x5117

    __eq__ = _cmp('eq', lambda a, b: a == b)
    __ne__ = _cmp('ne', lambda a, b: a != b)
    __lt__ = _cmp('lt', lambda a, b: a < b)
    __le__ = _cmp('le', lambda a, b: a <= b)
    __gt__ = _cmp('gt', lambda a, b: a > b)
    __ge__ = _cmp('ge', lambda a, b: a >= b)
    __add__ = _ar('add', lambda a, b: a + b)
    __radd__ = _ar('add', lambda a, b: a + b, True)
    __sub__ = _ar('sub', lambda a, b: a - b)
    __rsub__ = _ar('sub', lambda a, b: a - b, True)
    __mul__ = _ar('mul', _mul)
    __rmul__ = _ar('mul', _mul, True)
    __truediv__ = _ar('truediv', _div)
    __rtruediv__ = _ar('truediv', _div, True)

    def __neg__(self):
        return SNum(z3.fpNeg(self.e) if _is_fp(self.e) else -self.e)

    def __pos__(self):
        return self

    def __abs__(self):
        if _is_fp(self.e):
            return SNum(z3.fpAbs(self.e))
        return SNum(z3.If(self.e >= 0, self.e, -self.e))

    def __bool__(self):
        if _is_fp(self.e):
            return E.decide(z3.Not(z3.fpIsZero(self.e)))
        return E.decide(self.e != 0)

    def _unsupported(self, *a, **k):
        E.poison('symbolic number needs a concrete value (index/int/float/round)')
        raise Unsupported('concretisation')
    __index__ = __int__ = __round__ = __floordiv__ = __rfloordiv__ = \
        __mod__ = __rmod__ = __pow__ = __rpow__ = _unsupported

    def __float__(self):
        """float(x) of an exact (Int / Real) symbolic number: IEEE round-to-nearest-even is a
        step function; the declared box of the inputs bounds the term, the doubles covering that
        interval are enumerated in ascending order and the cell the value lies in is *decided*
        by the solver (each cell is a path).  More than 16 cells: unsupported (poison)."""
        if _is_fp(self.e) or E.draining or E.closed:
            return self._unsupported()
        b = _term_bounds(self.e)
        if b is None:
            return self._unsupported()
        cells = _float_cells(b[0], b[1], 16)
        if cells is None:
            return self._unsupported()
        x = self.e
        for f, hi, hi_incl in cells[:-1]:
            # ascending cells: the lower end is implied by the previous decisions
            bound = _z(hi)
            if E.decide((x <= bound) if hi_incl else (x < bound)):
                return f
        return cells[-1][0]

    def __repr__(self):
        if E.draining:
            # between two paths abandoned coroutines are finalised by the garbage collector in
            # arbitrary order: the z3 term of a stale proxy may already be gone - do not touch it
            return 'S(..)'
        return 'S(%s)' % z3.simplify(self.e)
    __str__ = __repr__

    def __format__(self, spec):
        return repr(self)


def _z(x):
    r = _lift(x)
    if r is NotImplemented or r is None:
        raise HarnessError('cannot lift %r into a term' % (x,))
    return r


# harness side helpers; in concrete mode they return plain python values
def _sb(x):
    if type(x) is SBool:
        return x.e
    return z3.BoolVal(bool(x))


def _rel(op, refl, name):
    def f(a, b):
        if E.concrete or not (type(a) is SNum or type(b) is SNum):
            return op(a, b)
        if ((isinstance(a, float) and a in (INF, -INF)) or
                (isinstance(b, float) and b in (INF, -INF))) and not (
                    (type(a) is SNum and _is_fp(a.e)) or (type(b) is SNum and _is_fp(b.e))):
            # comparisons between a finite symbolic value and an infinity are constant
            return op(0 if type(a) is SNum else a, 0 if type(b) is SNum else b)
        if a is b or (type(a) is SNum and type(b) is SNum and a.e.eq(b.e)):
            return refl
        fa = type(a) is SNum and _is_fp(a.e)
        fb = type(b) is SNum and _is_fp(b.e)
        if fa or fb:
            x = a.e if fa else (z3.FPVal(a, F64) if isinstance(a, float) else _to_fp(_z(a)))
            y = b.e if fb else (z3.FPVal(b, F64) if isinstance(b, float) else _to_fp(_z(b)))
            return SBool(_FP_CMP[name](x, y))
        x, y = _coerce(_z(a), _z(b))
        return SBool(op(x, y))
    return f


EQ = _rel(lambda a, b: a == b, True, 'eq')
NE = _rel(lambda a, b: a != b, False, 'ne')
LE = _rel(lambda a, b: a <= b, True, 'le')
LT = _rel(lambda a, b: a < b, False, 'lt')
GE = _rel(lambda a, b: a >= b, True, 'ge')
GT = _rel(lambda a, b: a > b, False, 'gt')


def AND(*xs):
    if all(type(x) is not SBool for x in xs):
        return all(xs)
    return SBool(z3.And(*[_sb(x) for x in xs]))


def OR(*xs):
    if all(type(x) is not SBool for x in xs):
        return any(xs)
    return SBool(z3.Or(*[_sb(x) for x in xs]))


def NOT(x):
    if type(x) is not SBool:
        return not x
    return SBool(z3.Not(x.e))


def IMPLIES(a, b):
    return OR(NOT(a), b)


def IFF(a, b):
    if type(a) is not SBool and type(b) is not SBool:
        return bool(a) == bool(b)
    return SBool(_sb(a) == _sb(b))


def ITE(c, a, b):
    """value level if-then-else that does not fork"""
    if type(c) is not SBool:
        return a if c else b
    fa = type(a) is SNum and _is_fp(a.e)
    fb = type(b) is SNum and _is_fp(b.e)
    if fa or fb:
        x = a.e if fa else (z3.FPVal(a, F64) if isinstance(a, float) else _to_fp(_z(a)))
        y = b.e if fb else (z3.FPVal(b, F64) if isinstance(b, float) else _to_fp(_z(b)))
        return SNum(z3.If(c.e, x, y))
    if isinstance(a, float) or isinstance(b, float):
        # infinities cannot live inside a term; fork instead
        return a if bool(c) else b
    x, y = _coerce(_z(a), _z(b))
    return SNum(z3.If(c.e, x, y))


def MIN(a, b):
    if isinstance(a, float) and a == INF:
        return b
    if isinstance(b, float) and b == INF:
        return a
    return ITE(LE(a, b), a, b)


def MAX(a, b):
    if isinstance(a, float) and a == -INF:
        return b
    if isinstance(b, float) and b == -INF:
        return a
    return ITE(GE(a, b), a, b)


# --------------------------------------------------------------------------- engine
def _fmt(detail):
    """obligation details are formatted lazily: ('fmt', args...) or a plain object"""
    try:
        if isinstance(detail, tuple) and detail and isinstance(detail[0], str):
            return (detail[0] % detail[1:])[:600]
        return str(detail)[:600]
    except Exception as err:     # never let a message break a verdict
        return 'unprintable detail: %r' % (err,)


class Violation:
    __slots__ = ('label', 'inputs', 'detail', 'path')

    def __init__(self, label, inputs, detail='', path=None):
        self.label, self.inputs, self.detail, self.path = label, inputs, detail, path

    def as_dict(self):
        return {'label': self.label, 'inputs': self.inputs, 'detail': self.detail}


def _pyval(v):
    """z3 model value -> int / Fraction"""
    if z3.is_int_value(v):
        return v.as_long()
    if z3.is_rational_value(v):
        f = Fraction(v.numerator_as_long(), v.denominator_as_long())
        return f
    if z3.is_true(v):
        return True
    if z3.is_false(v):
        return False
    if isinstance(v, z3.FPNumRef):
        return fp_float(v)
    raise HarnessError('unexpected model value %r' % (v,))


def enc_inputs(inputs):
    out = {}
    for k, v in inputs.items():
        if isinstance(v, Fraction):
            out[k] = {'frac': [v.numerator, v.denominator]}
        elif isinstance(v, float):
            out[k] = {'float': v.hex()}
        else:
            out[k] = v
    return out


def dec_inputs(inputs):
    out = {}
    for k, v in inputs.items():
        if isinstance(v, dict) and 'float' in v:
            out[k] = float.fromhex(v['float'])
        elif isinstance(v, dict) and 'frac' in v:
            out[k] = Fraction(v['frac'][0], v['frac'][1])
        else:
            out[k] = v
    return out


class Engine:
    QUERY_TIMEOUT_MS = 30000      # only floating point queries ever get near it

    def __init__(self):
        self.concrete = False
        self.solver = None
        self.stats_reset()
        self.begin_concrete({})
        self.draining = True

    # ---- statistics
    def stats_reset(self):
        self.q_sat = self.q_unsat = self.q_unknown = 0
        self.solver_s = 0.0
        self.n_decisions = 0
        self.n_forks = 0
        self.n_obligations = 0
        self.n_discharged = 0
        self.dump = None       # optional list collecting smt2 queries for cross-checking

    # ---- path life cycle
    def _begin_common(self):
        self.inputs = {}
        self.ranges = {}       # declared box of the Int / Real inputs: name -> (lo, hi)
        self.order = []
        self.poisoned = None
        self.violations = []
        self.reached = set()
        self.notes = []
        self.assumptions = []
        self.draining = False
        self.closed = False
        self.keep = []      # roots kept alive until the path is over
        self.void = None    # set when an assumption failed: the run does not count

    def begin_symbolic(self, prefix, prefix_terms):
        if self.solver is None:
            self.solver = z3.Solver()
            self.solver.set('timeout', self.QUERY_TIMEOUT_MS)
        else:
            self.solver.reset()
            self.solver.set('timeout', self.QUERY_TIMEOUT_MS)
        self.concrete = False
        self.prefix = prefix
        self.prefix_terms = prefix_terms
        self.trace = []        # (sexpr, taken)
        self.alts = []
        self.model = None
        self.mismatch = None
        self._begin_common()

    def begin_concrete(self, inputs):
        self.concrete = True
        self.given = dict(inputs)
        self.failed = []       # labels of failed obligations (concrete mode)
        self._begin_common()

    # ---- inputs
    def _new(self, name, var, lo, hi):
        if name in self.inputs:
            raise HarnessError('duplicate input %s' % name)
        v = SNum(var)
        self.inputs[name] = v
        self.ranges[name] = (lo, hi)
        if lo is not None:
            self.solver.add(var >= lo)
        if hi is not None:
            self.solver.add(var <= hi)
        self.model = None
        return v

    def _given(self, name, lo, hi, default=0):
        if name in self.inputs:
            raise HarnessError('duplicate input %s' % name)
        if name in self.given:
            v = self.given[name]
        else:
            v = lo if lo is not None else default
        self.inputs[name] = v
        return v

    def int(self, name, lo=None, hi=None):
        if self.concrete:
            return self._given(name, lo, hi)
        return self._new(name, z3.Int(name), lo, hi)

    def real(self, name, lo=None, hi=None):
        if self.concrete:
            v = Q(self._given(name, lo, hi))
            self.inputs[name] = v
            return v
        return self._new(name, z3.Real(name), lo, hi)

    def boolvar(self, name):
        """symbolic truth value (e.g. one entry of a symbolic subclass relation)"""
        if name in self.inputs:
            raise HarnessError('duplicate input %s' % name)
        if self.concrete:
            v = bool(self.given.get(name, False))
            self.inputs[name] = v
            return v
        v = SBool(z3.Bool(name))
        self.inputs[name] = v
        return v

    def float(self, name, lo, hi):
        """IEEE double in [lo, hi] (finite): arithmetic on it is z3 floating point (RNE)"""
        if self.concrete:
            v = float(self._given(name, lo, hi))
            self.inputs[name] = v
            return v
        if name in self.inputs:
            raise HarnessError('duplicate input %s' % name)
        var = z3.FP(name, F64)
        v = SNum(var)
        self.inputs[name] = v
        self.solver.add(z3.fpGEQ(var, z3.FPVal(float(lo), F64)),
                        z3.fpLEQ(var, z3.FPVal(float(hi), F64)))
        self.model = None
        return v

    def fconst(self, c):
        """float constant as a proxy (IEEE mode)"""
        if self.concrete:
            return float(c)
        return SNum(z3.FPVal(float(c), F64))

    def num(self, name, lo=None, hi=None, real=False):
        if real == 'float':
            return self.float(name, lo, hi)
        return self.real(name, lo, hi) if real else self.int(name, lo, hi)

    def const(self, c):
        """a number that is part of the scenario but concrete; still a proxy so that every
        dict key / heap entry of the code under test is a proxy (DESIGN 3.1)"""
        if self.concrete:
            return Q(c) if isinstance(c, Fraction) else c
        return SNum(_z(c))

    def pick(self, name, n):
        """finite choice in range(n) as a *python int*; splits the path n ways"""
        if self.concrete:
            return self._given(name, 0, n - 1)
        v = self._new(name, z3.Int(name), 0, n - 1)
        for i in range(n - 1):
            if self.decide(v.e == i):
                self.inputs[name] = SNum(z3.IntVal(i))
                return i
        self.inputs[name] = SNum(z3.IntVal(n - 1))
        return n - 1

    def flag(self, name):
        return self.pick(name, 2) == 1

    # ---- solver plumbing
    def poison(self, why):
        if self.poisoned is None and not self.draining:
            self.poisoned = why

    def _check(self, *extra):
        t = _time.perf_counter()
        s = self.solver
        if extra:
            s.push()
            s.add(*extra)
        r = s.check()
        m = s.model() if r == z3.sat else None
        if self.dump is not None and len(self.dump) < self.dump_max:
            self.dump.append((s.to_smt2(), str(r)))
        if extra:
            s.pop()
        self.solver_s += _time.perf_counter() - t
        if r == z3.sat:
            self.q_sat += 1
        elif r == z3.unsat:
            self.q_unsat += 1
        else:
            self.q_unknown += 1
        return r, m

    def _model_says(self, c):
        if self.model is None:
            r, m = self._check()
            if r != z3.sat:
                self.poison('path condition not satisfiable / unknown (%s)' % r)
                return None
            self.model = m
        v = self.model.eval(c, model_completion=True)
        if z3.is_true(v):
            return True
        if z3.is_false(v):
            return False
        v = z3.simplify(v)
        if z3.is_true(v):
            return True
        if z3.is_false(v):
            return False
        return None

    def decide(self, cond):
        """truth value of `cond` on this path; forks when both outcomes are feasible"""
        c = z3.simplify(cond)
        if z3.is_true(c):
            return True
        if z3.is_false(c):
            return False
        if self.draining or self.closed:
            # clean-up code of abandoned coroutines (GC) and post-run probing: answer
            # consistently with some model, record nothing
            if self.concrete or self.solver is None:
                return False
            mv = self._model_says(c)
            return bool(mv)
        if self.concrete:
            raise HarnessError('symbolic decision in concrete mode')
        i = len(self.trace)
        sx = None
        if i < len(self.prefix):
            taken = self.prefix[i]
            free = True
            if i < len(self.prefix_terms):
                sx = _sexpr(cond)
                rec_sx, free = self.prefix_terms[i]
                if rec_sx != sx and self.mismatch is None:
                    self.mismatch = (i, rec_sx, sx)
            self.solver.add(c if taken else z3.Not(c))
            self.model = None
        else:
            self.n_decisions += 1
            mv = self._model_says(c)
            if mv is None:
                # could not evaluate: ask both ways
                rt, mt = self._check(c)
                if rt == z3.sat:
                    mv, self.model = True, mt
                else:
                    rf, mf = self._check(z3.Not(c))
                    if rf == z3.sat:
                        mv, self.model = False, mf
                    else:
                        self.poison('undecided comparison %s' % c)
                        mv = True
            other = z3.Not(c) if mv else c
            ro, mo = self._check(other)
            if ro == z3.unknown:
                self.poison('solver unknown on %s' % other)
            free = ro == z3.sat
            if free:
                # both outcomes feasible: take True now, queue the sibling
                taken = True
                self.n_forks += 1
                if sx is None:
                    sx = _sexpr(cond)
                self.alts.append((
                    [t for _, t, _ in self.trace] + [False],
                    [(s_, f_) for s_, _, f_ in self.trace] + [(sx, True)],
                ))
                if not mv:
                    self.model = mo
            else:
                taken = mv
            self.solver.add(c if taken else z3.Not(c))
        if sx is None:
            # the term as built by the code under test (the simplifier may order the arguments
            # of commutative operators by internal ids, which differ between executions)
            sx = _sexpr(cond)
        self.trace.append((sx, taken, free))
        return taken

    def path_key(self):
        """identity of the path by its free (both-ways feasible) decisions only: independent of
        how many forced decisions (e.g. usage assertions of the code under test) were met"""
        import hashlib
        h = hashlib.sha1()
        for sx, taken, free in self.trace:
            if free:
                h.update(sx.encode())
                h.update(b'1' if taken else b'0')
        return h.hexdigest()

    # ---- obligations
    def assume(self, cond, text=None):
        """documented precondition; in concrete mode a false assumption voids the run"""
        if text:
            self.assumptions.append(text)
        if type(cond) is SBool:
            if self.concrete:
                raise HarnessError('SBool in concrete mode')
            c = z3.simplify(cond.e)
            if z3.is_true(c):
                return
            self.solver.add(c)
            self.model = None
            r, m = self._check()
            if r != z3.sat:
                self.void = 'assumption infeasible'
                raise PathAbort(self.void)
            self.model = m
        elif not cond:
            self.void = 'assumption false'
            raise PathAbort(self.void)

    def prove(self, cond, label, detail=''):
        """obligation: `cond` must hold for every input that follows this path"""
        if self.draining or self.closed:
            raise HarnessError('obligation %s raised after the path ended' % label)
        self.n_obligations += 1
        if self.concrete:
            if type(cond) is SBool:
                raise HarnessError('SBool in concrete mode')
            if cond:
                self.n_discharged += 1
            else:
                self.failed.append(label)
            return bool(cond)
        if type(cond) is SBool:
            c = z3.simplify(cond.e)
            if z3.is_true(c):
                self.n_discharged += 1
                return True
            r, m = self._check(z3.Not(c))
            if r == z3.unsat:
                self.n_discharged += 1
                return True
            if r == z3.unknown:
                self.poison('solver unknown on obligation %s' % label)
                return True
        else:
            if cond:
                self.n_discharged += 1
                return True
            r, m = self._check()
            if r != z3.sat:
                self.poison('path condition undecided at failed obligation %s' % label)
                return True
        if not any(v.label == label for v in self.violations):
            self.violations.append(Violation(label, self._model_inputs(m), _fmt(detail)))
        return False

    def fail(self, label, detail=''):
        return self.prove(False, label, detail)

    def reach(self, label):
        self.reached.add(label)

    def reach_if(self, cond, label):
        """reachability witness that does not fork: is `cond` possible on this path?"""
        if label in self.reached:
            return
        if type(cond) is SBool:
            c = z3.simplify(cond.e)
            if z3.is_false(c):
                return
            if z3.is_true(c) or self._check(c)[0] == z3.sat:
                self.reached.add(label)
        elif cond:
            self.reached.add(label)

    def note(self, *items):
        """event of the canonical trace used for path-replay validation (DESIGN 3.6)"""
        if not (self.draining or self.closed):
            self.notes.append(items)

    def hold(self, obj):
        self.keep.append(obj)
        return obj

    def _model_inputs(self, m):
        out = {}
        for k, v in self.inputs.items():
            out[k] = _pyval(m.eval(v.e, model_completion=True))
        return out

    def path_model_inputs(self):
        r, m = self._check()
        if r != z3.sat:
            return None, None
        return self._model_inputs(m), m

    def eval_notes(self, m):
        def ev(x):
            if type(x) is SNum:
                return _pyval(m.eval(x.e, model_completion=True))
            if type(x) is SBool:
                return _pyval(m.eval(x.e, model_completion=True))
            if isinstance(x, (tuple, list)):
                return tuple(ev(y) for y in x)
            return x
        return [ev(n) for n in self.notes]

    def pc_text(self, limit=12):
        cs = [('' if t else 'not ') + s for s, t, _ in self.trace]
        return cs[-limit:]


E = Engine()


def norm_note(x):
    if isinstance(x, (tuple, list)):
        return tuple(norm_note(y) for y in x)
    if x is None or isinstance(x, str):
        return x
    if not isinstance(x, (int, float, Fraction)):
        # objects differ by identity between the symbolic and the concrete run: compare kinds
        import enum
        if isinstance(x, enum.Enum):
            return str(x)
        return '<%s>' % type(x).__name__
    if isinstance(x, Fraction) and x.denominator == 1:
        return int(x)
    if isinstance(x, bool):
        return x
    if isinstance(x, float) and abs(x) != INF and x == x and x == int(x):
        return int(x)
    return x


# --------------------------------------------------------------------------- one path
class PathResult:
    __slots__ = ('status', 'detail', 'violations', 'alts', 'reached', 'trace_len', 'forks',
                 'validated', 'sample', 'nontrivial', 'key', 'digest')


_drains = [0]


def _drain():
    """end of a path: answer late decisions silently, drop the roots, collect the garbage of
    this path (gc is disabled while a path runs, so it all sits in the young generation)"""
    E.draining = True
    E.keep = []
    _drains[0] += 1
    gc.collect(0 if _drains[0] % 200 else 2)


def notes_digest(notes):
    """canonical text of a symbolic trace: numbers as simplified terms"""
    import hashlib

    def tx(x):
        if type(x) is SNum:
            return z3.simplify(x.e).sexpr()
        if type(x) is SBool:
            return z3.simplify(x.e).sexpr()
        if isinstance(x, (tuple, list)):
            return '(' + ' '.join(tx(y) for y in x) + ')'
        return repr(norm_note(x))
    h = hashlib.sha1()
    for n in notes:
        h.update(tx(n).encode())
        h.update(b';')
    return h.hexdigest()


def run_path(fn, params, prefix, prefix_terms, validate=False, want_sample=False,
             want_digest=False):
    """execute the family function once along `prefix`; returns PathResult"""
    res = PathResult()
    res.validated = 0
    res.sample = None
    res.key = res.digest = None
    E.begin_symbolic(prefix, prefix_terms)
    status, detail = 'ok', ''
    gc.disable()
    try:
        try:
            fn(E, **params)
        except PathAbort as a:
            status, detail = 'void', str(a)
        except HarnessError:
            status, detail = 'error', traceback.format_exc()
        except Unsupported as u:
            status, detail = 'poisoned', 'unsupported: %s' % u
        except Exception:
            status, detail = 'error', traceback.format_exc()
        E.closed = True
        if E.void and status != 'error':
            status, detail = 'void', E.void
        nondet_inputs = None
        if E.mismatch is not None and status != 'error':
            status = 'nondet'
            detail = 'decision %d: recorded %s, replayed %s' % E.mismatch
            nondet_inputs = E.path_model_inputs()[0]
        if len(E.trace) < len(E.prefix) and status in ('ok',):
            status = 'nondet'
            detail = 'path ended after %d decisions, prefix has %d' % (len(E.trace), len(E.prefix))
        if E.poisoned and status == 'ok':
            status, detail = 'poisoned', E.poisoned
        res.status, res.detail = status, detail
        res.violations = list(E.violations) if status in ('ok', 'poisoned') else []
        if status == 'void':
            # obligations raised before a failed assumption do not count; siblings still do
            res.violations = []
        res.alts = E.alts
        res.reached = set(E.reached)
        res.trace_len = len(E.trace)
        res.forks = len(E.alts)
        res.nontrivial = len(E.trace) > 0
        notes = E.notes
        if want_digest and status == 'ok':
            res.key = E.path_key()
            res.digest = notes_digest(notes)
        m = None
        inputs = None
        if status == 'ok' and (validate or want_sample):
            inputs, m = E.path_model_inputs()
        if want_sample and m is not None:
            res.sample = {
                'inputs': enc_inputs(inputs),
                'path_condition_tail': E.pc_text(),
                'decisions': len(E.trace),
                'trace': [repr(n) for n in E.eval_notes(m)[:40]],
            }
        sym_notes = None
        if validate and m is not None:
            sym_notes = [norm_note(n) for n in E.eval_notes(m)]
        _drain()
        if nondet_inputs is not None:
            # the code under test did not follow its own earlier decisions on re-execution:
            # let the family judge a concrete run (C02 repeats the program and compares traces)
            cres = run_concrete(fn, params, nondet_inputs)
            if cres['status'] == 'ok' and cres['failed']:
                res.status = 'ok'
                res.detail += ' (confirmed by the concrete run)'
                res.violations = [Violation(label, nondet_inputs,
                                            'nondeterministic re-execution: ' + detail)
                                  for label in dict.fromkeys(cres['failed'])]
        if sym_notes is not None:
            cres = run_concrete(fn, params, inputs)
            if cres['status'] == 'error':
                res.status, res.detail = 'error', 'concrete validation run: ' + cres['detail']
            else:
                conc_notes = [norm_note(n) for n in cres['notes']]
                if conc_notes != sym_notes and not cres['failed']:
                    res.status = 'unfaithful'
                    res.detail = 'inputs %r\n symbolic: %r\n concrete: %r\n failed: %r' % (
                        inputs, sym_notes[:60], conc_notes[:60], cres['failed'])
                else:
                    res.validated = 1
                    # an obligation that fails on the real objects of the concrete run is a
                    # counterexample in its own right (it can only be missed symbolically where
                    # a family replaces something by a symbolic stub)
                    have = set(v.label for v in res.violations)
                    for label in cres['failed']:
                        if label not in have:
                            have.add(label)
                            res.violations.append(Violation(
                                label, inputs, 'found by the concrete validation run'))
    finally:
        _drain()
        gc.enable()
    return res


def run_concrete(fn, params, inputs):
    """run the family with plain python numbers; returns failed obligation labels + notes"""
    E.begin_concrete(inputs)
    status, detail = 'ok', ''
    was = gc.isenabled()
    gc.disable()
    try:
        try:
            fn(E, **params)
        except PathAbort as a:
            status, detail = 'void', str(a)
        except Exception:
            status, detail = 'error', traceback.format_exc()
        E.closed = True
        if E.void and status != 'error':
            status, detail = 'void', E.void
        out = {'status': status, 'detail': detail, 'failed': list(E.failed),
               'notes': list(E.notes), 'reached': set(E.reached)}
    finally:
        _drain()
        if was:
            gc.enable()
    return out
