"""
C09  Lock: mutual exclusion, re-entrancy, FIFO hand-off, always released.

k contenders arrive at symbolic dates a_i, hold the lock for symbolic h_i (0 allowed), with
optional re-entrant nesting and an optional immediate re-request; one fault (cancel / until-
interrupt / close) strikes a chosen contender at a symbolic instant (c,p), attacker placed
before or after the victim.  Oracle: read off the request/enter/left log the contenders write.
"""
from usim import time, Scope, Lock, instant

from ..engine import EQ, GE, LE, LT, GT, AND, OR, NOT, IMPLIES, MAX, MIN
from ..explore import Family
from ..kit import Log, simulate, now, turn, classify_run_exception, Fault, STATE
from ..probe import Probe

BOUNDS = ('k<=2 (thorough 3) contenders, arrival a_i and hold h_i in [0,20] (0 = same-turn '
          'arrival / zero hold), nesting depth <=2, optional immediate re-request, one fault of '
          'kind cancel/interrupt/close on a chosen contender at (c,p), p<=1 (thorough 2), both '
          'placements; a prober that acquires after everybody left')
ASSUMPTIONS = ['contenders do not suppress CancelTask / GeneratorExit']


def fam_lock(E, k, fault_kinds, nest=True, rerequest=False, real=False, pmax=2, queue=False):
    if queue:
        # a holder and k-1 waiters queueing up one after the other (concrete arrivals / holds);
        # the fault instant and the victim stay symbolic
        a = [E.const(i) for i in range(k)]
        h = [E.const(10)] + [E.const(1)] * (k - 1)
    else:
        a = [E.num('a%d' % i, 0, 20, real=real) for i in range(k)]
        h = [E.num('h%d' % i, 0, 20, real=real) for i in range(k)]
    depth = [(E.pick('depth%d' % i, 2) + 1) if nest else 1 for i in range(k)]
    again = E.flag('again') if rerequest else False
    victim = E.pick('victim', k) if len(fault_kinds) > 1 or fault_kinds[0] != Fault.NONE else 0
    fault = Fault(E, 'f', fault_kinds, hi=40, pmax=pmax, real=real)
    lock = Lock()
    log = Log()
    inside = []        # contenders currently between 'enter' and 'left' (maintained by them)
    wanting = []       # contenders between 'request' and 'left'
    want_act = {}      # tag -> activity of that contender

    async def hold(i, round_):
        tag = (i, round_)
        log(i, 'request', round_)
        wanting.append(tag)
        want_act[tag] = STATE.loop.activity
        try:
            async with lock:
                inside.append((tag, STATE.loop.activity))
                log(i, 'enter', round_, lock.available, len(inside))
                try:
                    if depth[i] == 2:
                        t0, n0 = now(), STATE.loop.turn
                        async with lock:
                            log(i, 'enter2', round_, STATE.loop.turn == n0)
                            await (time + h[i])
                        log(i, 'left2', round_, lock.available)
                        await instant
                    else:
                        await (time + h[i])
                finally:
                    inside[:] = [x for x in inside if x[0] != tag]
                    log(i, 'left', round_)
        finally:
            wanting.remove(tag)
            log(i, 'gone', round_)

    def contender(i):
        async def run():
            await (time + a[i])
            await hold(i, 0)
            if again and i == 0:
                await hold(i, 1)
        return run

    async def prober():
        await (time + 200)
        n0 = STATE.loop.turn
        log('P', 'request', lock.available)
        wanting.append('P')
        want_act['P'] = STATE.loop.activity
        try:
            async with lock:
                inside.append(('P', STATE.loop.activity))
                try:
                    log('P', 'enter', STATE.loop.turn == n0)
                    # second phase: the lock is used again, re-entrantly and contended, after
                    # whatever happened before (a fault may have left stale bookkeeping behind)
                    async with lock:
                        await (time + 5)
                    log('P', 'p-left2', lock.available)
                    await (time + 5)
                    log('P', 'p-leaving', lock.available)
                finally:
                    inside[:] = [x for x in inside if x[0] != 'P']
        finally:
            wanting.remove('P')

    async def prober2():
        await (time + 202)
        log('P2', 'request', lock.available)
        wanting.append('P2')
        want_act['P2'] = STATE.loop.activity
        try:
            async with lock:
                inside.append(('P2', STATE.loop.activity))
                log('P2', 'enter', lock.available, len(inside))
                inside[:] = [x for x in inside if x[0] != 'P2']
        finally:
            wanting.remove('P2')

    async def root():
        async with Scope() as top:
            for i in range(k):
                if i == victim and fault.kind != Fault.NONE:
                    fault.spawn(top, contender(i), log)
                else:
                    top.do(contender(i)())
            top.do(prober())
            top.do(prober2())

    samples = []

    def hook(loop, target, signal):
        # between activations nobody is "the asking activity": available <=> free
        samples.append((lock.available, tuple(inside), tuple(wanting), target))

    probe = Probe()
    probe.hooks.append(hook)
    out = simulate(root(), log=log, probe=probe)
    bad = classify_run_exception(out.exc, allowed=())
    E.prove(bad is None, 'run-ends-normally', bad)
    if out.exc is not None:
        return
    E.reach(Fault.NAMES[fault.kind])
    # mutual exclusion + holder sees available
    for ev in log.events:
        if ev[1] == 'enter' and ev[0] not in ('P', 'P2'):
            E.prove(ev[5] == 1, 'mutual-exclusion', ('%r entered while %d inside', ev[0], ev[5] - 1))
            E.prove(ev[4] is True, 'available-for-holder')
        if ev[1] == 'enter2':
            E.reach('re-entered')
            E.prove(ev[4] is True, 're-entry-does-not-wait')
        if ev[1] == 'left2':
            E.prove(ev[4] is True, 'still-held-after-inner-block')
    # available from outside: false while somebody is inside, true when nobody holds or waits
    for avail, ins, want, target in samples:
        if ins:
            # the activity about to run is "the asking activity"
            E.prove(avail is (ins[0][1] is target), 'available-iff-free-or-own',
                    ('available=%r for an activity that is%s the holder', avail,
                     '' if ins[0][1] is target else ' not'))
        if not want:
            E.prove(avail is True, 'free-when-nobody-holds-or-waits')
        elif not ins and avail:
            # hand-over window: nobody is inside but somebody asked for the lock - it is either
            # free for, or already passed on to, one of those who asked; for anybody else it is
            # not available
            E.prove(any(want_act[tag] is target for tag in want),
                    'not-available-to-others-while-handed-over',
                    ('available for an activity that did not ask while %r asked', want))
    # FIFO among contenders that obtained the lock
    req = [(e[0], e[3]) for e in log.events if e[1] == 'request' and e[0] not in ('P', 'P2')]
    ent = [(e[0], e[3]) for e in log.events if e[1] == 'enter' and e[0] not in ('P', 'P2')]
    served = [r for r in req if r in ent]
    E.prove(served == ent, 'granted-in-request-order', ('requests %r, grants %r', req, ent))
    # everybody who was not hit by the fault obtains the lock and leaves
    for i in range(k):
        rounds = 2 if (again and i == 0) else 1
        for r in range(rounds):
            if fault.kind != Fault.NONE and i == victim:
                continue
            E.prove((i, r) in ent, 'every-unfaulted-contender-is-served', ('contender %r', (i, r)))
    if fault.kind != Fault.NONE:
        got = [e for e in log.events if e[0] == victim and e[1] == 'enter']
        reqv = [e for e in log.events if e[0] == victim and e[1] == 'request']
        f = log.first('f', 'fault')
        if f is not None and reqv and not got and log.pos(reqv[0]) < log.pos(f):
            E.reach('fault-hits-waiter')
        if f is not None and got and log.pos(got[0]) < log.pos(f) and \
                not any(e[0] == victim and e[1] == 'left' and log.pos(e) < log.pos(f)
                        for e in log.events):
            E.reach('fault-hits-holder')
    # exact hand-off instants without fault: i-th grant = max(arrival, previous release)
    if fault.kind == Fault.NONE and not again:
        free_at = None
        order = sorted(range(k), key=lambda i: [x[0] for x in ent].index(i)) \
            if len(ent) == k else None
        if order is not None:
            for i in order:
                ev = [e for e in log.events if e[0] == i and e[1] == 'enter'][0]
                want = a[i] if free_at is None else MAX(a[i], free_at)
                E.prove(EQ(ev[2], want), 'granted-as-soon-as-free',
                        ('contender %d arrived %r, lock free at %r, entered %r',
                         i, a[i], free_at, ev[2]))
                free_at = want + h[i]
    # the lock is free at the end: the prober acquires in its first turn
    pr, pe = log.first('P', 'request'), log.first('P', 'enter')
    if E.prove(pr is not None and pe is not None, 'prober-acquires'):
        E.prove(pr[3] is True and EQ(pe[2], 200) and pe[3] is True, 'lock-free-after-everybody-left',
                ('available %r, entered at %r, same turn %r', pr[3], pe[2], pe[3]))
    # second phase: re-entrant holder P (inner block 200..205, outer until 210), contender P2
    # asks at 202 and must get the lock exactly when P's outermost block ends
    l2, lv = log.first('P', 'p-left2'), log.first('P', 'p-leaving')
    q2, e2 = log.first('P2', 'request'), log.first('P2', 'enter')
    if E.prove(None not in (l2, lv, q2, e2), 'second-phase-completes'):
        E.prove(l2[3] is True and lv[3] is True, 'second-phase-still-held-after-inner-block',
                ('available for the owner after its inner block: %r, before leaving: %r',
                 l2[3], lv[3]))
        E.prove(q2[3] is False, 'second-phase-not-available-for-contender')
        E.prove(e2[4] == 1, 'mutual-exclusion', ('second phase: %d inside', e2[4]))
        E.prove(EQ(e2[2], 210) and log.pos(lv) < log.pos(e2) and e2[3] is True,
                'second-phase-handed-over-at-outermost-exit',
                ('contender entered at %r (owner leaves its outer block at 210)', e2[2]))


NOF = [Fault.NONE]
ALLF = [Fault.NONE, Fault.CANCEL, Fault.INTERRUPT, Fault.CLOSE]
FAMILIES = [
    Family('two_fault', fam_lock,
           quick=dict(k=2, fault_kinds=ALLF, nest=False, rerequest=False, pmax=2),
           reach=['none', 'cancel', 'interrupt', 'close', 'fault-hits-waiter',
                  'fault-hits-holder'],
           bounds='2 contenders, all faults'),
    Family('two_nest', fam_lock,
           quick=dict(k=2, fault_kinds=NOF, nest=True, rerequest=True),
           reach=['none', 're-entered'],
           bounds='2 contenders, nesting depth <= 2, immediate re-request, no fault'),
    Family('two', fam_lock,
           thorough=dict(k=2, fault_kinds=ALLF, nest=True, rerequest=True, pmax=3),
           reach=['none', 'cancel', 'interrupt', 'close', 're-entered', 'fault-hits-waiter',
                  'fault-hits-holder'],
           bounds='2 contenders, nesting, re-request, all faults'),
    Family('queue_of_four', fam_lock,
           quick=dict(k=4, fault_kinds=[Fault.CANCEL, Fault.INTERRUPT, Fault.CLOSE], nest=False,
                      queue=True, pmax=2),
           reach=['cancel', 'interrupt', 'close', 'fault-hits-waiter'],
           bounds='holder + 3 queued waiters (concrete arrivals 0..3), one of them removed at a '
                  'symbolic instant (c,p)'),
    Family('three', fam_lock,
           quick=dict(k=3, fault_kinds=NOF, nest=False),
           thorough=dict(k=3, fault_kinds=ALLF, nest=False, pmax=2),
           reach=['none'],
           bounds='3 contenders (quick: no fault; thorough: all faults)'),
    Family('two_real', fam_lock,
           thorough=dict(k=2, fault_kinds=ALLF, nest=False, real=True),
           bounds='2 contenders, exact rational dates'),
]
