"""
C17  Concurrent[...] handlers select exactly the documented sets of failures.

 * symbolic hierarchy: N exception classes whose subclass relation is an N x N matrix of z3
   Booleans constrained to be a partial order; a metaclass __subclasscheck__ asks the engine.
   The real MetaConcurrent matching code therefore runs over *every* hierarchy with <= N
   classes.  Children (plain or one level of nested Concurrent) and handler entries (plain,
   nested specialisation, bare Concurrent, trailing ...) are finite choices.
 * except clause: CPython matches `except` by the real MRO, so a symbolic relation cannot be
   seen there; it is checked on a concrete real hierarchy with the same choices.
"""
import itertools

import z3

from usim import Concurrent

from ..engine import EQ, AND, OR, NOT, IMPLIES, IFF, SBool
from ..explore import Family

BOUNDS = ('N=3 (thorough 4) classes in an arbitrary partial order; failure with 1..3 children, '
          'each plain or (nested families) Concurrent of 1..2 plain; handler with 1..2 (thorough '
          '3) entries, each plain / nested specialisation (with or without ...) / bare Concurrent, '
          'optional trailing ...; except-clause family on the real hierarchy KeyError, '
          'IndexError < LookupError < Exception, RuntimeError')
ASSUMPTIONS = ['specialisation arguments are Exception subclasses or Concurrent (documented)']


def make_hierarchy(E, n):
    """n exception classes + symbolic subclass matrix M[i][j] == 'Xi is a subclass of Xj'"""
    M = [[True if i == j else E.boolvar('sub_%d_%d' % (i, j)) for j in range(n)]
         for i in range(n)]
    for i in range(n):
        for j in range(n):
            if i == j:
                continue
            E.assume(NOT(AND(M[i][j], M[j][i])))           # antisymmetric
            for k in range(n):
                if k != i and k != j:
                    E.assume(IMPLIES(AND(M[i][j], M[j][k]), M[i][k]))    # transitive
    classes = []
    if E.concrete:
        # replay: REAL classes with real inheritance realising the partial order (bases = all
        # proper ancestors, listed along one linear extension, which C3 always accepts)
        order = sorted(range(n), key=lambda i: sum(1 for j in range(n) if M[i][j]))  # few ancestors first
        built = {}
        for i in order:
            anc = [j for j in range(n) if j != i and M[i][j]]
            anc.sort(key=lambda j: -sum(1 for k in range(n) if M[j][k]))     # most specific first
            # (all classes carry the same __name__: distinct types are told apart by identity)
            built[i] = type('X', tuple(built[j] for j in anc) or (Exception,), {'_idx': i})
        classes.extend(built[i] for i in range(n))
        return classes, M

    class SymMeta(type):
        def __hash__(cls):
            # deterministic: usim builds frozensets of classes, whose iteration order (and with
            # it the order of the issubclass() calls) would otherwise follow object addresses
            return 1000 + classes.index(cls) if cls in classes else 999

        def __subclasscheck__(cls, sub):
            if sub in classes and cls in classes:
                return bool(M[classes.index(sub)][classes.index(cls)])
            return False

        def __instancecheck__(cls, inst):
            return cls.__subclasscheck__(type(inst))

    for i in range(n):
        classes.append(SymMeta('X', (Exception,), {'_idx': i}))
    return classes, M


# --- reference rule (written from the statement)
def is_conc(t):
    return isinstance(t, type(Concurrent))


def r_sub(t, l, rel):
    """is failure-child type t matched by listed type l?  rel(a, b): plain-class relation"""
    tc, lc = is_conc(t), is_conc(l)
    if not tc and not lc:
        return rel(t, l)
    if tc and lc:
        if l.specialisations is None:
            return True
        if t.specialisations is None:
            return False      # cannot occur for the type of an instance with children
        return r_match(l.specialisations, l.inclusive, t.specialisations, rel)
    return False


def r_match(listed, inclusive, child_types, rel):
    every_listed = AND(*[OR(*[r_sub(t, l, rel) for t in child_types]) for l in listed])
    if inclusive:
        return every_listed
    every_child = AND(*[OR(*[r_sub(t, l, rel) for l in listed]) for t in child_types])
    return AND(every_listed, every_child)


def pick_child(E, name, classes, nested):
    kinds = 1 + (2 if nested else 0)
    k = E.pick(name + '_kind', kinds)
    if k == 0:
        return classes[E.pick(name, len(classes))]()
    a = classes[E.pick(name + '_a', len(classes))]()
    if k == 1:
        return Concurrent(a)
    b = classes[E.pick(name + '_b', len(classes))]()
    return Concurrent(a, b)


def pick_entry(E, name, classes, nested):
    kinds = 1 + (3 if nested else 0)
    k = E.pick(name + '_kind', kinds)
    if k == 0:
        return classes[E.pick(name, len(classes))]
    if k == 1:
        return Concurrent
    a = classes[E.pick(name + '_a', len(classes))]
    if k == 2:
        return Concurrent[a]
    return Concurrent[a, ...]


def _spec_hash(cls):
    if cls.specialisations is None:
        return 7
    return hash((tuple(sorted(hash(c) for c in cls.specialisations)), cls.inclusive))


def fam_symbolic(E, n, nchildren, nentries, nested=False):
    meta = type(Concurrent)
    meta.__hash__ = _spec_hash        # address independent (see SymMeta.__hash__)
    try:
        _fam_symbolic(E, n, nchildren, nentries, nested)
    finally:
        del meta.__hash__


def _fam_symbolic(E, n, nchildren, nentries, nested=False):
    classes, M = make_hierarchy(E, n)

    def rel(a, b):
        return M[classes.index(a)][classes.index(b)]

    nc = E.pick('nchildren', nchildren) + 1
    children = [pick_child(E, 'c%d' % i, classes, nested) for i in range(nc)]
    ne = E.pick('nentries', nentries) + 1
    entries = [pick_entry(E, 'h%d' % i, classes, nested) for i in range(ne)]
    incl = E.flag('ellipsis')
    failure = Concurrent(*children)
    ftype = type(failure)
    spec = tuple(entries) + ((...,) if incl else ())
    handler = Concurrent[spec if len(spec) > 1 else spec[0]]
    want = r_match(tuple(dict.fromkeys(entries)), incl, tuple(type(c) for c in children), rel)
    got_sub = issubclass(ftype, handler)
    E.prove(IFF(got_sub, want), 'issubclass-follows-the-rule',
            ('handler %r vs failure %r: issubclass says %r', handler, ftype, got_sub))
    got_inst = isinstance(failure, handler)
    E.prove(IFF(got_inst, want), 'isinstance-follows-the-rule',
            ('handler %r vs failure %r: isinstance says %r', handler, failure, got_inst))
    E.prove(got_sub == got_inst, 'isinstance-agrees-with-issubclass')
    E.prove(isinstance(failure, Concurrent) and issubclass(ftype, Concurrent),
            'bare-Concurrent-matches-everything')
    E.reach('match' if got_sub else 'no-match')
    # the type depends only on the set of the children's types
    for perm in itertools.permutations(children):
        E.prove(type(Concurrent(*perm)) is ftype, 'type-independent-of-order')
    dup = children + [type(children[0])()] if not is_conc(type(children[0])) else children
    E.prove(type(Concurrent(*dup)) is ftype, 'type-independent-of-multiplicity')
    # equal specialisations are the identical class
    again = Concurrent[tuple(reversed(spec)) if len(spec) > 1 else spec[0]]
    E.prove(again is handler, 'equal-specialisations-are-identical')
    # flattened(): leaves and their order
    flat = failure.flattened()
    leaves = []
    for c in children:
        leaves.extend(c.children if isinstance(c, Concurrent) else [c])
    E.prove(len(flat.children) == len(leaves) and
            all(a is b for a, b in zip(flat.children, leaves)), 'flattened-preserves-leaves-in-order',
            ('%r -> %r', failure, flat))
    if any(isinstance(c, Concurrent) for c in children):
        E.reach('nested')
        # the very same nested failure object occurring twice (two activities awaiting one failed
        # task re-raise the identical object) and a leaf occurring twice: all occurrences stay
        twice = Concurrent(*(children + children))
        flat2 = twice.flattened()
        E.prove(len(flat2.children) == 2 * len(leaves) and
                all(a is b for a, b in zip(flat2.children, leaves + leaves)),
                'flattened-preserves-leaves-in-order',
                ('re-used children: %r -> %r', twice, flat2))


# --- except clause on a real hierarchy
REAL = [KeyError, IndexError, LookupError, RuntimeError, Exception]


def fam_except(E, nchildren, nentries):
    def rel(a, b):
        return issubclass(a, b)
    nc = E.pick('nchildren', nchildren) + 1
    children = [REAL[E.pick('c%d' % i, 4)]('child %d' % i) for i in range(nc)]
    ne = E.pick('nentries', nentries) + 1
    entries = [REAL[E.pick('h%d' % i, 5)] for i in range(ne)]
    incl = E.flag('ellipsis')
    spec = tuple(entries) + ((...,) if incl else ())
    handler = Concurrent[spec if len(spec) > 1 else spec[0]]
    failure = Concurrent(*children)
    want = r_match(tuple(dict.fromkeys(entries)), incl, tuple(type(c) for c in children), rel)
    E.prove(isinstance(failure, handler) == want, 'isinstance-follows-the-rule')
    try:
        raise failure
    except handler:
        caught = True
    except Concurrent:
        caught = False
    E.reach('want-match' if want else 'want-no-match')
    if want:
        E.prove(caught, 'except-clause-misses-a-match',
                ('except %r does not catch %r although isinstance() and the rule say it matches',
                 handler, failure))
    else:
        E.prove(not caught, 'except-clause-catches-a-non-match',
                ('except %r catches %r although the rule says no match', handler, failure))


def fam_history(E, nchildren, nentries, churn=300):
    """equal specialisations stay the identical class over a long history: a handler type and a
    failure type are obtained, then `churn` unrelated specialisations are created (kept alive or
    dropped at once), then the same specialisation / the same set of child types is asked for
    again - identity, and matching against the object kept from before, must be unchanged"""
    def rel(a, b):
        return issubclass(a, b)
    nc = E.pick('nchildren', nchildren) + 1
    ctypes = [REAL[E.pick('c%d' % i, 4)] for i in range(nc)]
    ne = E.pick('nentries', nentries) + 1
    entries = [REAL[E.pick('h%d' % i, 5)] for i in range(ne)]
    incl = E.flag('ellipsis')
    keep = E.flag('keep')
    spec = tuple(entries) + ((...,) if incl else ())
    spec = spec if len(spec) > 1 else spec[0]
    handler = Concurrent[spec]
    failure = Concurrent(*[t('child') for t in ctypes])
    ftype = type(failure)
    kept = []
    for i in range(churn):
        other = type('Other%d' % i, (Exception,), {})
        o = Concurrent[other] if i % 2 else type(Concurrent(other()))
        if keep:
            kept.append(o)
    again = Concurrent[spec]
    E.prove(again is handler, 'equal-specialisations-are-identical',
            ('after %d other specialisations Concurrent[%r] is a new class', churn, spec))
    failure2 = Concurrent(*[t('child') for t in reversed(ctypes)])
    E.prove(type(failure2) is ftype, 'type-determined-by-the-set-of-child-types',
            ('after %d other specialisations the same child types give a new class', churn))
    want = r_match(tuple(dict.fromkeys(entries)), incl, tuple(ctypes), rel)
    E.reach('want-match' if want else 'want-no-match')
    for f in (failure, failure2):
        for h in (handler, again):
            E.prove(isinstance(f, h) == want and issubclass(type(f), h) == want,
                    'isinstance-follows-the-rule')


FAMILIES = [
    Family('plain', fam_symbolic,
           quick=dict(n=3, nchildren=3, nentries=2),
           thorough=dict(n=4, nchildren=3, nentries=3),
           reach=['match', 'no-match'], nonrepro='inconclusive',
           bounds='plain children and entries over a symbolic partial order'),
    Family('nested', fam_symbolic,
           quick=dict(n=2, nchildren=2, nentries=2, nested=True),
           thorough=dict(n=3, nchildren=2, nentries=2, nested=True),
           reach=['match', 'no-match', 'nested'], nonrepro='inconclusive',
           bounds='children may be Concurrent(a) / Concurrent(a,b), entries may be bare Concurrent, '
                  'Concurrent[a], Concurrent[a, ...]'),
    Family('history', fam_history,
           quick=dict(nchildren=2, nentries=2), thorough=dict(nchildren=3, nentries=3, churn=2000),
           reach=['want-match', 'want-no-match'],
           bounds='real hierarchy; 300 (thorough 2000) unrelated specialisations are created '
                  'between two requests for the same specialisation'),
    Family('except', fam_except,
           quick=dict(nchildren=2, nentries=2),
           thorough=dict(nchildren=3, nentries=3),
           reach=['want-match', 'want-no-match'],
           bounds='real hierarchy, except clause'),
]
