"""
C10  Queue delivers every accepted item exactly once, in order, to waiters in order.

Producers put uniquely numbered items at symbolic dates, consumers (single gets or iteration)
start at symbolic dates, the queue is closed at a symbolic date, one fault strikes a chosen
participant at (c,p); a final drainer closes the queue (if still open) and empties it.
Oracle: read off the log written by the participants.
"""
from usim import time, Scope, Queue, StreamClosed, instant

from ..engine import EQ, GE, LE, LT, GT, AND, OR, NOT, IMPLIES, MAX, MIN
from ..explore import Family
from ..kit import Log, simulate, now, classify_run_exception, Fault, Payload
from . import c18 as _c18

BOUNDS = ('np<=2 producers x 2 puts with gaps in [0,15], nc<=2 consumers starting in [0,15] '
          '(two single gets, or iteration), close at z in [0,40] or never, one fault '
          '(cancel/interrupt/close) on a chosen participant at (c,p) p<=1, both placements; '
          'drainer at 200')
ASSUMPTIONS = ['participants do not suppress CancelTask / GeneratorExit']

SINGLE, ITERATE = 0, 1


def fam_queue(E, np_, nc, fault_kinds, close_modes=2, real=False, pmax=2, placements=True,
              victims=None, nputs=2, burst=False, ngets=2, single_only=False, late=False,
              slow=False):
    # burst: only the date of the first put is symbolic, the others follow at once, so that a
    # backlog builds up in the buffer before the consumers arrive / the queue is closed
    gaps = [[E.num('g%d_%d' % (i, j), 0, 15, real=real) if not (burst and j) else E.const(0)
             for j in range(nputs)] for i in range(np_)]
    starts = [E.num('s%d' % i, 0, 15, real=real) for i in range(nc)]
    ckind = [SINGLE if single_only else (ITERATE if slow else E.pick('ck%d' % i, 2))
             for i in range(nc)]
    # slow: the consumers iterate and need w per item, so that a backlog builds up behind them
    w = E.num('w', 0, 10, real=real) if slow else None
    closing = E.pick('closing', close_modes) == 1
    z = E.num('z', 0, 40, real=real) if closing else None
    fault = Fault(E, 'f', fault_kinds, hi=40, pmax=pmax, real=real, placements=placements)
    parts = ['p%d' % i for i in range(np_)] + ['c%d' % i for i in range(nc)]
    if victims is not None:
        parts_v = [x for x in parts if x in victims]
    else:
        parts_v = parts
    victim = parts_v[E.pick('victim', len(parts_v))] if fault.kind != Fault.NONE else None
    q = Queue()
    log = Log()

    def producer(i):
        async def run():
            name = 'p%d' % i
            for j in range(nputs):
                await (time + gaps[i][j])
                item = Payload((i, j))
                log(name, 'put-call', item)
                try:
                    await q.put(item)
                except StreamClosed:
                    log(name, 'put-refused', item)
                    return
                log(name, 'put-done', item)
        return run

    def consumer(i):
        async def run():
            name = 'c%d' % i
            await (time + starts[i])
            if ckind[i] == SINGLE:
                for _ in range(ngets):
                    log(name, 'get-call')
                    try:
                        item = await q
                    except StreamClosed:
                        log(name, 'closed')
                        return
                    log(name, 'got', item)
            else:
                log(name, 'get-call')
                async for item in q:
                    log(name, 'got', item)
                    if slow:
                        await (time + w)
                    log(name, 'get-call')
                log(name, 'closed')
        return run

    # late phase: long after the first one (and its fault) two further receivers, each a new
    # activity asking once, and two further items; what the first phase left behind in the
    # queue (its read mutex, its notification) must not matter
    def late_consumer(name, at):
        async def run():
            await (time + at)
            log(name, 'get-call')
            try:
                item = await q
            except StreamClosed:
                log(name, 'closed')
                return
            log(name, 'got', item)
        return run

    async def late_producer():
        await (time + 105)
        for j in range(2):
            item = Payload((9, j))
            log('p9', 'put-call', item)
            try:
                await q.put(item)
            except StreamClosed:
                log('p9', 'put-refused', item)
                return
            log('p9', 'put-done', item)
            await (time + 10)

    async def closer():
        await (time + z)
        log('z', 'close-call')
        await q.close()

    async def drainer():
        await (time + 200)
        log('z', 'close-call')
        await q.close()
        log('d', 'get-call')
        async for item in q:
            log('d', 'got', item)
            log('d', 'get-call')
        log('d', 'closed')

    async def root():
        async with Scope() as top:
            for i in range(np_):
                fn = producer(i)
                if victim == 'p%d' % i:
                    fault.spawn(top, fn, log)
                else:
                    top.do(fn())
            for i in range(nc):
                fn = consumer(i)
                if victim == 'c%d' % i:
                    fault.spawn(top, fn, log)
                else:
                    top.do(fn())
            if closing:
                top.do(closer())
            if late:
                top.do(late_consumer('c8', 100)())
                top.do(late_consumer('c9', 110)())
                top.do(late_producer())
            top.do(drainer())

    out = simulate(root(), log=log)
    bad = classify_run_exception(out.exc, allowed=())
    E.prove(bad is None, 'run-ends-normally', bad)
    if out.exc is not None:
        return
    E.reach(Fault.NAMES[fault.kind])
    ev = log.events
    refused = [e[3] for e in ev if e[1] == 'put-refused']
    accepted = [e[3] for e in ev if e[1] == 'put-call' and e[3] not in refused]
    got = [e[3] for e in ev if e[1] == 'got']
    # exactly once
    E.prove(len(set(got)) == len(got), 'no-duplicates', ('received %r', got))
    E.prove(sorted(got) == sorted(accepted), 'every-accepted-item-received-exactly-once',
            ('accepted %r, received %r', accepted, got))
    # receives complete in put order
    E.prove(got == accepted, 'received-in-put-order', ('put %r, received %r', accepted, got))
    # refused puts happen only after close and store nothing
    first_close = next((log.pos(e) for e in ev if e[1] == 'close-call'), None)
    for e in ev:
        if e[1] == 'put-refused':
            E.reach('put-after-close')
            call = next(x for x in ev if x[1] == 'put-call' and x[3] == e[3])
            E.prove(first_close is not None and first_close < log.pos(call),
                    'put-refused-only-when-closed')
        if e[1] == 'put-done':
            call = next(x for x in ev if x[1] == 'put-call' and x[3] == e[3])
            E.prove(first_close is None or log.pos(call) < first_close,
                    'put-on-closed-queue-raises')
    # waiting receivers are served in the order in which they started waiting
    calls = []     # [name, pos_call, pos_done, outcome]
    open_call = {}
    for pos, e in enumerate(ev):
        if e[1] == 'get-call':
            open_call[e[0]] = [e[0], pos, None, None]
            calls.append(open_call[e[0]])
        elif e[1] in ('got', 'closed') and e[0] in open_call and open_call[e[0]][2] is None:
            open_call[e[0]][2] = pos
            open_call[e[0]][3] = e[1]
    done = [c for c in calls if c[3] == 'got']
    E.prove([c[1] for c in done] == sorted(c[1] for c in done) and
            [c[2] for c in sorted(done, key=lambda c: c[1])] == sorted(c[2] for c in done),
            'receivers-served-in-waiting-order',
            ('calls %r', [(c[0], c[1], c[2]) for c in calls]))
    # a get that started waiting earlier is never overtaken
    for c1 in done:
        for c2 in done:
            if c1[1] < c2[1]:
                E.prove(c1[2] < c2[2], 'no-overtaking-among-receivers')
    # ... also not a get that ends with StreamClosed: an item handed to a get that started
    # later would have been its item
    for c1 in calls:
        if c1[3] == 'closed' and c1[0] != victim:
            for c2 in done:
                E.prove(not c1[1] < c2[1], 'no-overtaking-among-receivers',
                        ('%s asked at %d and saw StreamClosed, %s asked at %d and got an item',
                         c1[0], c1[1], c2[0], c2[1]))
    # unfaulted receivers always complete (the drainer closes the queue in the end)
    for c in calls:
        if c[0] != victim:
            E.prove(c[3] is not None, 'every-get-completes', ('%r', c))
    # StreamClosed only after close and only when every accepted item put so far was received
    for pos, e in enumerate(ev):
        if e[1] == 'closed':
            E.reach('closed-seen')
            n_put = sum(1 for x in ev[:pos] if x[1] == 'put-call' and x[3] not in refused)
            n_got = sum(1 for x in ev[:pos] if x[1] == 'got')
            E.prove(first_close is not None and first_close < pos, 'StreamClosed-only-after-close')
            E.prove(n_put == n_got, 'buffered-items-delivered-before-StreamClosed',
                    ('%d put, %d received when %s saw StreamClosed', n_put, n_got, e[0]))
    if fault.kind != Fault.NONE:
        f = log.first('f', 'fault')
        if f is not None:
            vc = [c for c in calls if c[0] == victim and c[1] < log.pos(f) and
                  (c[2] is None or c[2] > log.pos(f))]
            if vc:
                E.reach('fault-hits-waiting-receiver')
            vp = [x for x in ev if x[0] == victim and x[1] == 'put-call' and
                  log.pos(x) < log.pos(f) and
                  not any(y[0] == victim and y[1] == 'put-done' and y[3] == x[3] and
                          log.pos(y) < log.pos(f) for y in ev)]
            if vp:
                E.reach('fault-hits-putting-producer')


ALLF = [Fault.NONE, Fault.CANCEL, Fault.INTERRUPT, Fault.CLOSE]
FAMILIES = [
    Family('p1c1', fam_queue,
           quick=dict(np_=1, nc=1, fault_kinds=ALLF, pmax=2),
           reach=['none', 'cancel', 'interrupt', 'close', 'put-after-close', 'closed-seen',
                  'fault-hits-waiting-receiver', 'fault-hits-putting-producer'],
           bounds='1 producer x 2 puts, 1 consumer, all faults, both placements'),
    Family('p1c2_nofault', fam_queue,
           quick=dict(np_=1, nc=2, fault_kinds=[Fault.NONE]),
           reach=['none', 'put-after-close', 'closed-seen'],
           bounds='1 producer x 2 puts, 2 consumers, no fault'),
    Family('c2_fault', fam_queue,
           quick=dict(np_=1, nc=2, fault_kinds=[Fault.CANCEL, Fault.CLOSE], pmax=2, close_modes=1,
                      victims=['c1']),
           reach=['cancel', 'close', 'fault-hits-waiting-receiver'],
           bounds='1 producer x 2 puts, 2 consumers, the second consumer cancelled / closed at (c,p)'),
    Family('late_phase', fam_queue,
           quick=dict(np_=1, nc=2, nputs=1, ngets=1, single_only=True, late=True, close_modes=1,
                      fault_kinds=[Fault.CANCEL, Fault.CLOSE, Fault.INTERRUPT], pmax=2,
                      victims=['c1', 'c0']),
           reach=['cancel', 'close', 'interrupt', 'fault-hits-waiting-receiver'],
           bounds='1 producer x 1 put, 2 receivers asking once (one of them faulted at (c,p), also '
                  'as the designated next receiver with nobody queued behind it), then - long '
                  'after - two further receivers (new activities) and two further items'),
    Family('slow_iteration', fam_queue,
           quick=dict(np_=1, nc=1, nputs=3, slow=True, close_modes=1,
                      fault_kinds=[Fault.NONE, Fault.CANCEL, Fault.CLOSE], pmax=1, placements=False,
                      victims=['c0']),
           thorough=dict(np_=1, nc=2, nputs=3, slow=True, close_modes=2,
                         fault_kinds=ALLF, pmax=2, victims=['c0']),
           reach=['none', 'cancel', 'close'],
           bounds='1 producer x 3 puts at symbolic gaps, 1 (thorough 2) iterating consumer needing '
                  'w in [0,10] per item (a backlog builds up behind it), cancelled / closed at (c,p) '
                  'in the middle of the backlog; the drainer must find every item not received'),
    Family('backlog', fam_queue,
           quick=dict(np_=1, nc=2, fault_kinds=[Fault.NONE], nputs=3, burst=True),
           thorough=dict(np_=1, nc=2, fault_kinds=[Fault.NONE, Fault.CANCEL], nputs=4, burst=True,
                         placements=False, victims=['c1']),
           reach=['none', 'closed-seen'],
           bounds='1 producer putting 3 (thorough 4) items in a burst, 2 consumers arriving at '
                  'symbolic dates, close at a symbolic date: a backlog is shared by two receivers, '
                  'also after the close'),
    Family('process_receiver', _c18.fam_queue_process, quick=dict(), thorough=dict(real=True),
           reach=['interrupt-in-the-time-step-of-a-put'],
           bounds='the receiver is a SimPy-layer process (`yield queue`) that is interrupted at '
                  'symbolic dates, also in the time step of a put (harness shared with C18)'),
    Family('p1c2', fam_queue,
           thorough=dict(np_=1, nc=2, fault_kinds=ALLF, pmax=2, placements=False,
                         victims=['p0', 'c0']),
           reach=['none', 'cancel', 'interrupt', 'close', 'put-after-close', 'closed-seen',
                  'fault-hits-waiting-receiver', 'fault-hits-putting-producer'],
           bounds='1 producer x 2 puts, 2 consumers'),
    Family('p2c1', fam_queue,
           quick=dict(np_=2, nc=1, fault_kinds=[Fault.NONE], close_modes=1),
           thorough=dict(np_=2, nc=1, fault_kinds=[Fault.NONE, Fault.CANCEL, Fault.CLOSE], pmax=2,
                         placements=False, _max_paths=900000, _max_wall=1200),
           reach=['none'],
           bounds='2 producers x 2 puts, 1 consumer'),
    Family('p1c2_real', fam_queue,
           thorough=dict(np_=1, nc=2, fault_kinds=[Fault.NONE, Fault.CANCEL], real=True,
                         placements=False),
           bounds='as p1c2, exact rational dates'),
]
