"""
C06  Task lifecycle: forward-only status, stable result, precise cancellation.

Two families over the real Scope / Task code:
 * cancel:  victim task (optional start delay d0, two sleeps d1, d2, success or failure),
            cancel(token) issued at symbolic date c after p postponements, optionally twice,
            from an activity spawned before or after the victim; a sibling task.
 * awaiters: victim that succeeds / fails / is cancelled, two awaiters starting at symbolic
            dates (before or after completion), each awaiting twice.
The oracle is observational (facts logged by the program itself), see the brief in DESIGN 5/C06.
"""
from usim import time, Scope, instant, Concurrent, TaskCancelled, CancelTask, TaskState

from ..engine import EQ, GE, LE, LT, GT, AND, OR, NOT, IMPLIES, MAX
from ..explore import Family
from ..kit import Log, simulate, now, classify_run_exception, UserErr, at_cp, Payload

# what a successful payload returns: a *falsy* object (a task result must never be judged by
# its truth value)
RESULT = Payload(('R', 0))
from ..probe import Probe

BOUNDS = ('dates/delays in [0,40]; cancel family: start delay d0, sleeps d1,d2, cancel at (c,p) '
          'p in 0..2, placement before/after victim, optional second cancel (same turn or e '
          'later), sibling; awaiters family: 2 awaiters x 2 awaits, victim outcome in '
          '{success, failure, cancelled at c}')
ASSUMPTIONS = ['cancel tokens are plain objects; payloads do not suppress CancelTask']

ORDER = {TaskState.CREATED: 0, TaskState.RUNNING: 1,
         TaskState.SUCCESS: 2, TaskState.FAILED: 2, TaskState.CANCELLED: 2}


def status_monitor(E, box, seq):
    """probe hook: sample task.status at every activation boundary"""
    def hook(loop, target, signal):
        if box:
            st = box[0].status
            if not seq or seq[-1] is not st:
                seq.append(st)
    return hook


def check_status_sequence(E, seq):
    for a, b in zip(seq, seq[1:]):
        E.prove(ORDER[a] < ORDER[b], 'status-forward-only', ('status went %s -> %s', a, b))


def fam_cancel(E, real=False, with_delay=True, twice_modes=3, cleanup=False):
    # asynchronous clean-up of the victim after it saw the cancellation (k time units)
    k = E.num('k', 0, 40, real=real) if cleanup else None
    d0 = E.num('d0', 0, 40, real=real) if with_delay else 0
    d1 = E.num('d1', 0, 40, real=real)
    d2 = E.num('d2', 0, 40, real=real)
    fails = E.flag('fails')
    c = E.num('c', 0, 40, real=real)
    p = E.pick('p', 3)
    first = E.flag('canceller_first')
    twice = E.pick('twice', twice_modes)      # 0: once, 1: again in the same turn, 2: again e later
    e = E.num('e', 0, 40, real=real) if twice == 2 else None
    ds = E.num('ds', 0, 40, real=real)
    log = Log()
    box = []
    err = UserErr('victim failed')
    tok1, tok2 = object(), object()
    if cleanup and E.flag('same_token'):
        tok2 = tok1          # repeated cancel() with an equal token (e.g. plain cancel() twice)
    outer_box = []

    async def victim():
        try:
            log('v', 'step0')
            await (time + d1)
            log('v', 'step1')
            await (time + d2)
            log('v', 'end')
        except CancelTask:
            log('v', 'cancel-seen')
            if cleanup:
                try:
                    await (time + k)
                    log('v', 'cleanup-done')
                except CancelTask:
                    log('v', 'cancel-seen-again')
                    raise
            raise
        if fails:
            raise err
        return RESULT

    async def sibling():
        await (time + ds)
        log('s', 'end')

    async def holder():
        try:
            async with Scope() as inner:
                if first:
                    outer_box[0].do(canceller())
                if with_delay:
                    box.append(inner.do(victim(), after=d0))
                else:
                    box.append(inner.do(victim()))
                if not first:
                    outer_box[0].do(canceller())
                inner.do(sibling())
                log('h', 'body-end')
        except Concurrent as exc:
            log('h', 'concurrent', exc)
        log('h', 'exit')

    async def canceller():
        await at_cp(c, p)
        task = box[0]
        log('c', 'cancel', task.status, task._result, log.has('v', 'step0'))
        task.cancel(tok1)
        if twice == 1:
            task.cancel(tok2)
        elif twice == 2:
            await (time + e)
            log('c', 'cancel2', task.status, task._result)
            task.cancel(tok2)
            log('c', 'cancel2-done', task.status, task._result)

    async def late_awaiter():
        # awaits once everything else is over: the outcome as seen by awaiters
        await (time + 200)
        try:
            res = await box[0]
            log('a', 'value', res)
        except BaseException as exc:        # noqa
            log('a', 'raised', exc)

    async def root():
        async with Scope() as outer:
            outer_box.append(outer)
            outer.do(holder())
            outer.do(late_awaiter())

    seq = []
    probe = Probe()
    probe.hooks.append(status_monitor(E, box, seq))
    out = simulate(root(), log=log, probe=probe)
    bad = classify_run_exception(out.exc, allowed=())
    E.prove(bad is None, 'run-ends-normally', bad)
    if out.exc is not None:
        return
    check_status_sequence(E, seq)
    task = box[0]
    ce = log.first('c', 'cancel')
    if not E.prove(ce is not None, 'canceller-ran'):
        return
    tcancel, st_at, res_at, started_at = ce[2], ce[3], ce[4], ce[5]
    vstart = log.first('v', 'step0')
    vend = log.first('v', 'end')
    vseen = log.first('v', 'cancel-seen')
    aw = log.first('a', 'value') or log.first('a', 'raised')
    if not E.prove(aw is not None, 'awaiter-got-outcome'):
        return
    cancelled_outcome = aw[1] == 'raised' and isinstance(aw[3], TaskCancelled)
    if res_at is not None:
        # finished before cancel(): nothing may change
        E.reach('cancel-after-finish')
        E.prove(task._result is res_at, 'outcome-unchanged-by-late-cancel')
        E.prove(not cancelled_outcome or isinstance(res_at[1], TaskCancelled),
                'late-cancel-does-nothing')
    elif not started_at:
        # no payload code had run when cancel() was called
        start_due = d0           # victim is spawned at time 0
        if with_delay and EQ(tcancel, start_due) and not EQ(start_due, 0):
            # delayed start racing with the cancel in the very time step of the start:
            # either order is accepted (see module doc)
            E.reach('cancel-races-delayed-start')
        else:
            E.reach('cancel-before-start')
            E.prove(vstart is None, 'cancelled-before-start-runs-no-code',
                    ('payload ran at %r although cancelled at %r before its start',
                     vstart and vstart[2], tcancel))
            E.prove(cancelled_outcome, 'cancelled-before-start-is-cancelled')
    else:
        # suspended (or about to complete in this very time step)
        E.reach('cancel-while-suspended')
        completed_in_step = vend is not None and EQ(vend[2], tcancel)
        if vseen is not None:
            E.prove(EQ(vseen[2], tcancel), 'cancel-delivered-in-same-time-step',
                    ('cancel() at %r, CancelTask seen at %r', tcancel, vseen[2]))
            E.prove(cancelled_outcome, 'awaiters-get-TaskCancelled')
            later = [x for x in log.of('v') if log.pos(x) > log.pos(vseen)]
            E.prove(not later or cleanup, 'no-payload-code-after-cancel')
        else:
            E.prove(completed_in_step, 'cancel-not-lost',
                    ('cancel() at %r on a suspended task was never delivered', tcancel))
            E.prove(not cancelled_outcome, 'completed-task-is-not-cancelled')
    if cancelled_outcome:
        exc = aw[3]
        E.prove(exc.subject is task, 'TaskCancelled-carries-task')
        if cleanup and log.has('v', 'cancel-seen-again'):
            # the payload handled the first cancellation asynchronously and was ended by the
            # second one: the token is that of the cancellation that ended it
            E.prove(exc.args in ((tok1,), (tok2,)), 'TaskCancelled-carries-a-cancel-token')
        else:
            E.prove(exc.args == (tok1,), 'TaskCancelled-carries-first-token',
                    ('args %r', exc.args))
        E.prove(task.status is TaskState.CANCELLED, 'status-cancelled')
    elif aw[1] == 'value':
        E.prove(aw[3] is RESULT and not fails and task.status is TaskState.SUCCESS, 'status-success')
    else:
        E.prove(aw[3] is err and fails and task.status is TaskState.FAILED, 'status-failed')
    # a second cancel of a task that is still busy (cleaning up) is delivered in its time step
    c2 = log.first('c', 'cancel2')
    if cleanup and c2 is not None and c2[4] is None and c2[3] is TaskState.RUNNING and vseen:
        E.reach('second-cancel-during-cleanup')
        again = log.first('v', 'cancel-seen-again')
        cd = log.first('v', 'cleanup-done')
        if again is not None:
            E.prove(EQ(again[2], c2[2]), 'cancel-delivered-in-same-time-step',
                    ('second cancel() at %r, seen at %r', c2[2], again[2]))
        else:
            E.prove(cd is not None and EQ(cd[2], c2[2]), 'cancel-not-lost',
                    ('second cancel() at %r during clean-up was never delivered', c2[2]))
    if c2 is not None and c2[4] is not None:
        d2e = log.first('c', 'cancel2-done')
        E.prove(d2e[4] is c2[4], 'second-cancel-of-finished-task-does-nothing')
    # sibling and parent scope are unaffected by a cancellation
    se = log.first('s', 'end')
    hx = log.first('h', 'exit')
    hc = log.first('h', 'concurrent')
    if aw[1] == 'raised' and aw[3] is err:
        E.prove(hc is not None and hc[3].children == (err,), 'failure-reported-as-concurrent')
    else:
        E.prove(hc is None, 'cancel-does-not-fail-parent')
        if E.prove(se is not None, 'sibling-completes'):
            E.prove(EQ(se[2], ds), 'sibling-completes-at-own-date')
        if E.prove(hx is not None, 'parent-exits'):
            last = vend[2] if vend is not None else (vseen[2] if vseen is not None else tcancel)
            if vstart is None and vseen is None:
                last = 0 if not cancelled_outcome else tcancel
            E.prove(GE(hx[2], ds), 'parent-exit-not-before-sibling')


def fam_awaiters(E, real=False):
    d1 = E.num('d1', 0, 40, real=real)
    outcome = E.pick('outcome', 3)       # 0 success 1 failure 2 cancelled at c
    c = E.num('c', 0, 40, real=real) if outcome == 2 else None
    a = [E.num('a%d' % i, 0, 40, real=real) for i in range(2)]
    via_done = E.flag('via_done')
    log = Log()
    box = []
    err = UserErr('victim failed')
    tok = object()
    value = Payload(('value', 0))       # a falsy result object

    async def victim():
        await (time + d1)
        log('v', 'end')
        if outcome == 1:
            raise err
        return value

    async def holder():
        try:
            async with Scope() as inner:
                box.append(inner.do(victim()))
        except Concurrent as exc:
            log('h', 'concurrent', exc)

    async def canceller():
        await at_cp(c, 0)
        log('c', 'cancel', box[0]._result)
        box[0].cancel(tok)

    async def awaiter(i):
        await at_cp(a[i], 0)
        task = box[0]
        for k in range(2):
            was_done = bool(task.done)
            log(i, 'await', k, was_done)
            try:
                if via_done and k == 0:
                    await task.done
                    log(i, 'done-seen', k, bool(task.done))
                    continue
                res = await task
                log(i, 'value', k, res)
            except BaseException as exc:     # noqa
                log(i, 'raised', k, exc)

    async def root():
        async with Scope() as outer:
            outer.do(holder())
            if outcome == 2:
                outer.do(canceller())
            for i in range(2):
                outer.do(awaiter(i))

    seq = []
    probe = Probe()
    probe.hooks.append(status_monitor(E, box, seq))
    out = simulate(root(), log=log, probe=probe)
    bad = classify_run_exception(out.exc, allowed=())
    E.prove(bad is None, 'run-ends-normally', bad)
    if out.exc is not None:
        return
    check_status_sequence(E, seq)
    task = box[0]
    final = task._result
    if not E.prove(final is not None, 'task-finished'):
        return
    # completion instant
    vend = log.first('v', 'end')
    ce = log.first('c', 'cancel')
    if outcome == 2 and ce is not None and ce[3] is None:
        tdone = ce[2]
        E.reach('cancelled')
    else:
        tdone = vend[2] if vend else None
    outcomes = []
    for i in range(2):
        for k in range(2):
            aw = [x for x in log.of(i, 'await') if x[3] == k]
            got = [x for x in log.of(i) if x[1] in ('value', 'raised', 'done-seen') and x[3] == k]
            if not E.prove(len(aw) == 1 and len(got) == 1, 'every-await-completes'):
                return
            t_aw, was_done = aw[0][2], aw[0][4]
            g = got[0]
            # completes at max(await start, completion instant)
            if tdone is not None:
                E.prove(EQ(g[2], MAX(t_aw, tdone)), 'await-completes-at-completion',
                        ('await at %r, task done at %r, await returned at %r', t_aw, tdone, g[2]))
            if was_done:
                E.reach('await-after-completion')
            else:
                E.reach('await-before-completion')
            if g[1] == 'done-seen':
                E.prove(g[4] is True, 'done-true-on-resume')
            else:
                outcomes.append(g)
    for g in outcomes:
        if final[1] is None:
            E.prove(g[1] == 'value' and g[4] is final[0], 'same-value-for-every-awaiter')
        else:
            E.prove(g[1] == 'raised' and g[4] is final[1], 'same-exception-for-every-awaiter')
    if outcome == 0:
        E.prove(final[0] is value and final[1] is None, 'success-outcome')
    elif outcome == 1:
        E.prove(final[1] is err, 'failure-outcome')
    else:
        ok = (isinstance(final[1], TaskCancelled) and final[1].subject is task
              and final[1].args == (tok,)) if ce[3] is None else final == ce[3]
        E.prove(ok, 'cancel-outcome')


def fam_cancel_close(E, real=False):
    """cancel(token), then the owning scope is abandoned (its body raises) at a later or the
    same instant: the outcome recorded by the cancellation must survive the forced close"""
    d1 = E.num('d1', 0, 20, real=real)
    x = E.num('x', 0, 20, real=real)
    px = E.pick('px', 2)
    y = E.num('y', 0, 20, real=real)
    py = E.pick('py', 2)
    delayed = E.flag('delayed')
    d0 = E.num('d0', 0, 20, real=real) if delayed else None
    log = Log()
    box = []
    tok = object()
    err = UserErr('body')

    async def victim():
        log('v', 'step0')
        try:
            await (time + d1)
        except CancelTask:
            log('v', 'cancel-seen')
            raise
        log('v', 'end')
        return RESULT

    async def holder():
        try:
            async with Scope() as inner:
                box.append(inner.do(victim(), after=d0) if delayed else inner.do(victim()))
                await at_cp(x, px)
                task = box[0]
                log('h', 'cancel', task._result, log.has('v', 'step0'))
                task.cancel(tok)
                log('h', 'cancelled', task._result)
                await at_cp(y, py)
                log('h', 'raise', task._result)
                raise err
        except UserErr:
            log('h', 'caught')

    async def late_awaiter():
        await (time + 100)
        try:
            res = await box[0]
            log('a', 'value', res)
        except BaseException as exc:        # noqa
            log('a', 'raised', exc)

    async def root():
        async with Scope() as outer:
            outer.do(holder())
            outer.do(late_awaiter())

    seq = []
    probe = Probe()
    probe.hooks.append(status_monitor(E, box, seq))
    out = simulate(root(), log=log, probe=probe)
    bad = classify_run_exception(out.exc, allowed=())
    E.prove(bad is None, 'run-ends-normally', bad)
    if out.exc is not None:
        return
    check_status_sequence(E, seq)
    task = box[0]
    ce, cd, rs = log.first('h', 'cancel'), log.first('h', 'cancelled'), log.first('h', 'raise')
    aw = log.first('a', 'value') or log.first('a', 'raised')
    if not E.prove(ce is not None and aw is not None, 'ran'):
        return
    if ce[3] is not None:
        E.reach('cancel-after-finish')
        E.prove(task._result is ce[3], 'outcome-unchanged-by-late-cancel')
    elif not ce[4]:
        E.reach('cancel-before-start')
        # cancelled before any of its code ran: done at once, with the token, for good
        if not delayed:
            E.prove(cd[3] is not None and isinstance(cd[3][1], TaskCancelled),
                    'cancelled-immediately')
            E.prove(not log.has('v', 'step0'), 'cancelled-before-start-runs-no-code')
        if cd[3] is not None:
            E.prove(task._result is cd[3], 'outcome-never-changes-once-done',
                    ('outcome at cancel %r, finally %r', cd[3], task._result))
    else:
        E.reach('cancel-while-suspended')
    if rs is not None and rs[3] is not None:
        E.reach('done-before-scope-abandoned')
        E.prove(task._result is rs[3], 'outcome-never-changes-once-done',
                ('outcome before the scope was abandoned %r, finally %r', rs[3], task._result))
    res = task._result
    if E.prove(res is not None, 'task-finished'):
        if res[1] is None:
            E.prove(aw[1] == 'value' and aw[3] is res[0], 'awaiter-gets-stored-outcome')
        else:
            E.prove(aw[1] == 'raised' and aw[3] is res[1], 'awaiter-gets-stored-outcome')
        if isinstance(res[1], TaskCancelled):
            E.prove(res[1].subject is task and res[1].args == (tok,),
                    'TaskCancelled-carries-task-and-token', ('%r', res[1].args))


FAMILIES = [
    Family('cancel', fam_cancel,
           quick=dict(with_delay=False, twice_modes=2),
           thorough=dict(with_delay=False),
           reach=['cancel-after-finish', 'cancel-before-start', 'cancel-while-suspended'],
           bounds='victim without start delay; cancel at (c,p), p<=2, both placements; '
                  'quick: second cancel in the same turn only'),
    Family('cancel_delayed', fam_cancel,
           quick=dict(with_delay=True, twice_modes=1),
           thorough=dict(with_delay=True),
           reach=['cancel-after-finish', 'cancel-before-start', 'cancel-while-suspended'],
           bounds='victim started with after=d0'),
    Family('cancel_cleanup', fam_cancel,
           quick=dict(with_delay=False, twice_modes=3, cleanup=True),
           thorough=dict(with_delay=True, twice_modes=3, cleanup=True),
           reach=['second-cancel-during-cleanup'],
           bounds='victim with asynchronous clean-up (k time units) after CancelTask; second '
                  'cancel e later'),
    Family('cancel_close', fam_cancel_close,
           quick=dict(),
           thorough=dict(),
           reach=['cancel-after-finish', 'cancel-before-start', 'cancel-while-suspended',
                  'done-before-scope-abandoned'],
           bounds='cancel at (x,px) by the scope body, body raises at (y,py); optional start delay'),
    Family('awaiters', fam_awaiters,
           quick=dict(),
           thorough=dict(),
           reach=['await-after-completion', 'await-before-completion', 'cancelled'],
           bounds='2 awaiters x 2 awaits (task / task.done), outcome success/failure/cancelled'),
    Family('awaiters_real', fam_awaiters, thorough=dict(real=True),
           bounds='as awaiters with exact rational dates'),
]
