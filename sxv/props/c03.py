"""
C03  The kernel never fails on its own: no leaked signal, internal error or livelock.

A victim activity performs one op (thorough: two ops in sequence) of the program alphabet
(sxv/ops.py, ~33 uses of the public API with fresh symbolic arguments) while the helper
activities of its world run; an attacker strikes it at a symbolic instant (c, p): cancel, double
cancel, until-interrupt, forced close by a failing enclosing scope, with the attacker placed
before or after the victim.  Oracle: run() ends normally or with the program's own exception;
every internal signal that is delivered reaches the activity it was created for; no time step
exceeds the activation bound.
"""
from usim import time, Scope, instant, Concurrent
from usim._core.loop import Interrupt
from usim._primitives.task import CancelTask
from usim._primitives.context import CancelScope

from ..engine import EQ, GE, LE, LT, GT, AND, OR, NOT
from ..explore import Family
from ..kit import Log, simulate, now, classify_run_exception, Fault, UserErr, at_cp
from ..ops import World, OPS, RARE, make_op
from ..probe import Probe

BOUNDS = ('victim = 1 op (thorough: 2 ops in sequence) out of 33; all numeric arguments symbolic '
          '(dates/delays in [0,20] or [-10,20], amounts, volumes); attacker none / cancel / '
          'double cancel / until-interrupt / close at (c,p), c in [0,25], p<=1 (thorough 2), both '
          'placements; a bystander; livelock bound 400 activations per time step')
ASSUMPTIONS = ['only valid API calls are made (the op alphabet never violates a usage assertion)',
               'exceptions the program itself raises: UserErr (op "raise")']

FIXED2 = {'h': 2, 'r': 3, 'u': 4, 'x': 1, 'v': 2, 'a': 1, 'b': 1, 'p': 2, 'd2': 3}
DOUBLE = 9      # extra attacker kind on top of Fault.*: cancel twice


def signal_monitor(E, probe):
    """every delivered internal signal must target the activity it was created for"""
    def hook(loop, target, signal):
        if signal is None:
            return
        if isinstance(signal, CancelTask):
            ok = signal.subject.__runner__ is target
        elif isinstance(signal, CancelScope):
            ok = signal.subject._activity is target
        elif type(signal) is Interrupt:
            # postpone / suspend / subscription wake-ups carry the waiting activity as last token
            ok = signal.token[-1] is target
        else:
            ok = True
        E.prove(ok, 'signal-delivered-to-its-own-activity',
                ('%r delivered to %r', signal, target))
        E.prove(not signal._revoked, 'revoked-signal-delivered')
    return hook


def fam_kernel(E, names, fault_kinds, nops=1, pmax=2, real=False, placements=True, fixed=False):
    log = Log()
    # two-op programs keep the secondary arguments concrete to bound the date orderings
    W = World(E, log, real=real, fixed=FIXED2 if fixed else None)
    chosen = [names[E.pick('op%d' % k, len(names))] for k in range(nops)]
    parts = [make_op(W, chosen[k], 'v%d' % k) for k in range(nops)]
    kinds = list(fault_kinds)
    fault = Fault(E, 'f', [k if k != DOUBLE else Fault.CANCEL for k in kinds], hi=25, pmax=pmax,
                  real=real, placements=placements)
    double = False
    if DOUBLE in kinds and fault.kind == Fault.CANCEL:
        double = E.flag('double')

    def victim():
        async def run():
            for fn, _ in parts:
                await fn()
        return run

    async def second_cancel():
        await at_cp(fault.c, fault.p)
        if fault.task is not None:
            fault.task.cancel('second')

    async def bystander():
        await (time + 50)
        log('by', 'end')

    async def root():
        async with Scope() as top:
            for _, drivers in parts:
                for drv in drivers:
                    top.do(drv(), volatile=True)
            fault.spawn(top, victim(), log)
            if double:
                top.do(second_cancel())
            top.do(bystander())

    probe = Probe()
    probe.hooks.append(signal_monitor(E, probe))
    out = simulate(root(), log=log, probe=probe)
    bad = classify_run_exception(out.exc, allowed=(UserErr,))
    E.prove(bad is None, 'run-ends-normally-or-with-own-exception',
            ('%s with attacker %s: %s', chosen, Fault.NAMES[fault.kind], bad))
    for name in chosen:
        E.reach(name)
    E.reach(Fault.NAMES[fault.kind])
    if out.exc is not None:
        # the only exception the program raises itself
        E.prove('raise' in chosen, 'exception-only-if-the-program-raised-one',
                ('%s ended with %r', chosen, out.exc))
        return
    by = log.first('by', 'end')
    E.prove(by is not None and EQ(by[2], 50), 'bystander-undisturbed')
    # without an attacker every op that can complete does complete
    if fault.kind == Fault.NONE and nops == 1:
        for k, name in enumerate(chosen):
            if name in ('eternity',):
                break
            if name in ('moment', 'before', 'await f|moment'):
                break           # may legitimately wait forever (date in the past)
            if name == 'raise':
                break
            E.prove(log.has('v%d' % k, 'end'), 'op-completes-when-undisturbed', ('%s', name))


ALLF = [Fault.NONE, Fault.CANCEL, DOUBLE, Fault.INTERRUPT, Fault.CLOSE, Fault.CANCEL_CLOSE,
        Fault.CLOSE_UNTIL]
FAMILIES = [
    Family('one_op', fam_kernel,
           quick=dict(names=OPS, fault_kinds=ALLF, nops=1, pmax=2),
           thorough=dict(names=OPS, fault_kinds=ALLF, nops=1, pmax=3),
           reach=OPS + ['none', 'cancel', 'interrupt', 'close', 'cancel+close', 'close by until'],
           bounds='one op, all attackers'),
    Family('rare_ops', fam_kernel,
           quick=dict(names=RARE, fault_kinds=[Fault.NONE, Fault.CANCEL, Fault.CLOSE], nops=1,
                      pmax=1, placements=False),
           thorough=dict(names=RARE, fault_kinds=ALLF, nops=1, pmax=2),
           reach=RARE,
           bounds='first() with a backlog and an activity failing in two stages (5 free delays); a '
                  'task with a start delay cancelled before / after its wrapper ran while the scope '
                  'body ends before / after the start date'),
    Family('two_ops', fam_kernel,
           thorough=dict(names=['sleep', 'after', 'flag.set', 'await flag', 'await f1&f2',
                                'tracked.set', 'await tracked>=x', 'lock', 'queue.put',
                                'await queue', 'for channel', 'channel.put', 'borrow', 'claim',
                                'pipe.transfer', 'interval', 'first', 'scope', 'until',
                                'scope failing', 'until graceful'],
                         fault_kinds=[Fault.NONE, Fault.CANCEL, Fault.CLOSE], nops=2, pmax=1,
                         placements=False, fixed=True, _max_wall=1200),
           bounds='two ops in sequence'),
    Family('one_op_real', fam_kernel,
           thorough=dict(names=['sleep', 'moment', 'after', 'lock', 'await queue', 'borrow',
                                'pipe.transfer', 'interval', 'until', 'first'],
                         fault_kinds=[Fault.NONE, Fault.CANCEL, Fault.INTERRUPT], real=True, pmax=1),
           bounds='exact rational dates'),
]
