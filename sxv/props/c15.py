"""
C15  run() ends at quiescence, reports failures and keeps simulations isolated.

 * sequence: up to three run() calls one after the other on one thread; each either succeeds,
   has a root raising at a symbolic date, has a root *returning* a symbolic value, or contains a
   nested run() inside an activity; symbolic start times and dates.
 * threads: two real threads, each running a simulation (one of them with a nested run()); only
   one thread runs at a time (a baton of semaphores) and at every activation boundary a finite
   choice decides whether the baton is handed over, so every interleaving at activation
   granularity is a path.  Oracle: each thread observes exactly what it observes when alone.
"""
import threading

import usim
from usim import time, Scope, instant, eternity
from usim._core.loop import ActivityLeak

from ..engine import EQ, GE, LE, LT, GT, AND, OR, NOT, IMPLIES, MAX, MIN, SNum
from ..explore import Family
from ..kit import Log, simulate, now, classify_run_exception, UserErr, STATE
from ..probe import Probe

BOUNDS = ('sequence: 2 (thorough 3) consecutive runs, kinds success / root raises / root returns '
          'a value in [-3,3] or None / nested run; start in [-10,10], dates in [0,20]; threads: 2 '
          'threads (one with a nested run), 2 sleeps each, baton hand-over decided at every '
          'activation boundary; pre-emption inside an activation is outside the claim')
ASSUMPTIONS = ['threads interleave at activation boundaries only (the GIL may pre-empt anywhere; '
               'usim keeps no cross-thread state other than the thread-local loop handle, which '
               'is what the family attacks)']

SUCCESS, RAISES, RETURNS, NESTED, WAITERS, TILL = range(6)


def sees_no_simulation():
    try:
        time.now
    except RuntimeError:
        return True
    return False


def one_run(E, k, kind, real=False, bystanders=False):
    """perform run number k of the given kind; all obligations inside"""
    start = E.num('start%d' % k, -10, 10, real=real)
    d = [E.num('d%d_%d' % (k, i), 0, 20, real=real) for i in range(2)]
    log = Log()
    err = UserErr('root %d failed' % k)
    ret = E.int('ret%d' % k, -3, 3) if kind == RETURNS else None
    inner_start = E.num('istart%d' % k, -10, 10, real=real) if kind == NESTED else None
    inner_d = E.num('id%d' % k, 0, 20, real=real) if kind == NESTED else None
    # a third root that is still suspended when the run ends (by a failure or at quiescence)
    # and whose clean-up would need the simulation: nobody may run it as part of run()
    bykind = (E.pick('by%d' % k, 4 if kind == RAISES else 3)
              if bystanders and kind in (RAISES, WAITERS, SUCCESS) else 0)

    async def inner():
        log('in', 'start')
        await (time + inner_d)
        log('in', 'end')

    async def root0():
        log(0, 'start')
        await (time + d[0])
        log(0, 'step')
        if kind == RAISES:
            raise err
        if kind == RETURNS:
            return ret
        if kind == NESTED:
            before = now()
            usim.run(inner(), start=inner_start)
            log(0, 'nested-done', before)
            await (time + 1)
            log(0, 'after-nested')
        if kind == WAITERS:
            await eternity

    async def root1():
        log(1, 'start')
        await (time + d[1])
        log(1, 'step')
        await (time + 1)
        log(1, 'end')

    async def forever():
        await eternity

    async def root2():
        if bykind == 1:
            try:
                await eternity
            finally:
                time.now
        elif bykind == 3:
            # suspended in a *timed* wait (so it sits in the loop's queue) when the run is
            # aborted; its clean-up objects loudly if somebody runs it as part of the simulation
            try:
                await (time + 1000)
            finally:
                if not sees_no_simulation():
                    raise UserErr('clean-up of a left-over activity ran inside run()')
        else:
            async with Scope() as scope:
                scope.do(forever())
                scope.do(forever(), volatile=True)
                await eternity

    E.prove(sees_no_simulation(), 'no-simulation-visible-before-run')
    probe = Probe()
    extra = (root2(),) if bykind else ()
    if bykind:
        E.reach('suspended-bystander')
    if kind == TILL:
        # run(till=T), T >= start: ends when till is reached, nothing runs later than T
        T = start + E.num('dT%d' % k, 0, 25, real=real)
        out = simulate(root0(), root1(), start=start, till=T, log=log, probe=probe)
        E.prove(sees_no_simulation(), 'no-simulation-visible-after-run')
        E.prove(out.exc is None, 'run-ends-normally', out.exc)
        E.reach('till')
        for ev in log.events:
            E.prove(LE(ev[2], T), 'till-reached-ends-the-run',
                    ('%r at %r although till was %r', ev[:2], ev[2], T))
        for (_, t, _, _, _) in probe.activations:
            E.prove(LE(t, T), 'till-reached-ends-the-run', ('activation at %r, till %r', t, T))
        if GT(T, start + d[1] + 1):
            E.prove(log.has(1, 'end'), 'every-activity-ran-to-its-end')
        return
    out = simulate(root0(), root1(), *extra, start=start, log=log, probe=probe)
    E.prove(sees_no_simulation(), 'no-simulation-visible-after-run',
            ('after a run of kind %d that ended with %r', kind, out.exc))
    # roots start at `start` in argument order
    s0, s1 = log.first(0, 'start'), log.first(1, 'start')
    if E.prove(s0 is not None and s1 is not None, 'all-roots-start'):
        E.prove(EQ(s0[2], start) and EQ(s1[2], start), 'roots-start-at-start')
        E.prove(log.pos(s0) < log.pos(s1), 'roots-start-in-argument-order')
    if kind == RAISES:
        E.reach('raises')
        E.prove(out.exc is err, 'first-escaping-exception-reraised-unchanged', ('%r', out.exc))
        for ev in log.events:
            E.prove(LE(ev[2], start + d[0]), 'nothing-runs-after-the-failure')
    elif kind == RETURNS:
        E.reach('returns-value')
        E.prove(isinstance(out.exc, ActivityLeak) and out.exc.result is ret,
                'unreceived-return-value-is-reported',
                ('root returned %r, run() ended with %r', ret, out.exc))
    else:
        bad = classify_run_exception(out.exc, allowed=())
        E.prove(bad is None, 'run-ends-normally', bad)
        if out.exc is not None:
            return
        # quiescence: everything that was scheduled and not revoked has run
        E.prove(not probe.pending_unrevoked(), 'returns-only-at-quiescence',
                ('%d activations still queued', len(probe.pending_unrevoked())))
        e1 = log.first(1, 'end')
        E.prove(e1 is not None and EQ(e1[2], start + d[1] + 1), 'every-activity-ran-to-its-end')
        if kind == NESTED:
            E.reach('nested')
            nd, an = log.first(0, 'nested-done'), log.first(0, 'after-nested')
            ie = log.first('in', 'end')
            if E.prove(nd is not None and an is not None and ie is not None, 'nested-run-completed'):
                E.prove(EQ(ie[2], inner_start + inner_d), 'nested-simulation-has-its-own-clock')
                E.prove(EQ(nd[2], start + d[0]) and EQ(nd[3], nd[2]), 'outer-clock-unchanged-by-nested-run')
                E.prove(EQ(an[2], start + d[0] + 1), 'outer-simulation-continues-undisturbed')
            st = log.first(1, 'step')
            E.prove(st is not None and EQ(st[2], start + d[1]), 'sibling-undisturbed-by-nested-run')
        if kind == WAITERS:
            E.reach('quiescent-with-waiters')


def fam_sequence(E, nruns, kinds, real=False, bystanders=False):
    for k in range(nruns):
        kind = kinds[E.pick('kind%d' % k, len(kinds))]
        one_run(E, k, kind, real=real, bystanders=bystanders)


class Baton:
    """lets exactly one of n threads run; hand-over decided by the engine at each boundary"""

    def __init__(self, E, n, max_switches):
        self.E = E
        self.sems = [threading.Semaphore(0) for _ in range(n)]
        self.done = [False] * n
        self.k = 0
        self.switches = 0
        self.max = max_switches
        self.errors = []

    def boundary(self, me):
        others = [j for j in range(len(self.sems)) if j != me and not self.done[j]]
        if not others or self.k >= self.max:
            return
        self.k += 1
        if self.E.pick('switch%d' % self.k, 2) == 1:
            self.switches += 1
            self.sems[others[0]].release()
            self.sems[me].acquire()

    def finish(self, me):
        self.done[me] = True
        others = [j for j in range(len(self.sems)) if j != me and not self.done[j]]
        if others:
            self.sems[others[0]].release()


def fam_threads(E, real=False, max_switches=10):
    n = 2
    start = [E.num('start%d' % i, -10, 10, real=real) for i in range(n)]
    d = [[E.num('d%d_%d' % (i, j), 0, 20, real=real) for j in range(2)] for i in range(n)]
    inner_start = E.num('istart', -10, 10, real=real)
    inner_d = E.num('id', 0, 20, real=real)
    baton = Baton(E, n, max_switches)
    logs = [[] for _ in range(n)]
    ident = {}

    def rec(i, what, *data):
        try:
            t = STATE.loop.time
        except RuntimeError:
            t = None
        logs[i].append((what, t) + data)
        E.note(i, what, t, *data)

    async def inner(i):
        rec(i, 'inner-start')
        await (time + inner_d)
        rec(i, 'inner-end')

    def program(i):
        async def root():
            rec(i, 'start')
            await (time + d[i][0])
            rec(i, 'step')
            if i == 0:
                usim.run(inner(i), start=inner_start)
                rec(i, 'nested-done')
            await (time + d[i][1])
            rec(i, 'end')
        return root

    def hook(loop, target, signal):
        me = ident.get(threading.get_ident())
        if me is not None:
            baton.boundary(me)

    results = [None] * n

    def body(i):
        ident[threading.get_ident()] = i
        if i != 0:
            baton.sems[i].acquire()
        try:
            results[i] = ('before', sees_no_simulation())
            try:
                usim.run(program(i)(), start=start[i])
                exc = None
            except BaseException as err:      # noqa
                exc = err
            results[i] = (results[i][1], exc, sees_no_simulation())
        finally:
            baton.finish(i)

    probe = Probe(check_clock=False)
    probe.hooks.append(hook)
    threads = [threading.Thread(target=body, args=(i,)) for i in range(n)]
    with probe.installed():
        for t in threads:
            t.start()
        for t in threads:
            t.join(timeout=30)
            if t.is_alive():
                from ..engine import HarnessError
                raise HarnessError('thread did not finish (baton deadlock)')
    E.reach('switched' if baton.switches else 'no-switch')
    if baton.switches >= 3:
        E.reach('switched-3-times')
    for i in range(n):
        r = results[i]
        if not E.prove(r is not None and len(r) == 3, 'thread-finished'):
            return
        before, exc, after = r
        E.prove(before and after, 'thread-sees-no-simulation-outside-run')
        E.prove(exc is None, 'run-ends-normally-in-thread', ('thread %d: %r', i, exc))
        if exc is not None:
            continue
        # what the thread observes must be what it observes when running alone
        want = [('start', start[i]), ('step', start[i] + d[i][0])]
        t = start[i] + d[i][0]
        if i == 0:
            want += [('inner-start', inner_start), ('inner-end', inner_start + inner_d),
                     ('nested-done', t)]
        want.append(('end', t + d[i][1]))
        got = logs[i]
        if E.prove([g[0] for g in got] == [w[0] for w in want], 'thread-events-as-when-alone',
                   ('thread %d: %r', i, [g[0] for g in got])):
            for g, w in zip(got, want):
                E.prove(g[1] is not None and EQ(g[1], w[1]), 'thread-clock-as-when-alone',
                        ('thread %d event %s at %r, expected %r', i, g[0], g[1], w[1]))


def fam_nested_dates(E, real=False):
    """an outer run(till=T) whose activities wait for dates, and a nested run(till=iT) started
    from inside it whose activity waits for dates as well - all dates symbolic, so that the two
    simulations wait for *equal* dates (and equal till dates) on some paths.  Each simulation
    has its own clock and its own wake-ups."""
    start = E.num('start', 0, 10, real=real)
    T = start + E.num('dT', 0, 40, real=real)
    d0 = E.num('d0', 0, 10, real=real)
    u = E.num('u', 0, 30, real=real)
    istart = E.num('istart', 0, 10, real=real)
    iT = istart + E.num('idT', 0, 40, real=real)
    v = E.num('v', 0, 30, real=real)
    log = Log()

    async def inner():
        log('in', 'start')
        await (time >= v)
        log('in', 'woke')

    async def root0():
        await (time + d0)
        before = now()
        log(0, 'nesting')
        usim.run(inner(), start=istart, till=iT)
        log(0, 'nested-done', before)
        await (time + 1)
        log(0, 'after-nested')

    async def root1():
        await (time >= u)
        log(1, 'woke')

    out = simulate(root0(), root1(), start=start, till=T, log=log, probe=Probe(check_clock=False))
    E.prove(sees_no_simulation(), 'no-simulation-visible-after-run')
    bad = classify_run_exception(out.exc, allowed=())
    E.prove(bad is None, 'run-ends-normally', bad)
    if out.exc is not None:
        return
    for ev in log.events:
        if ev[0] != 'in':
            E.prove(LE(ev[2], T), 'till-reached-ends-the-run', ('%r at %r, till %r', ev[:2], ev[2], T))
    # outer waiter: exactly at max(u, start) when that is before till
    want1 = MAX(u, start)
    w1 = log.first(1, 'woke')
    if LT(want1, T):
        E.prove(w1 is not None and EQ(w1[2], want1), 'outer-wait-resumes-at-its-date',
                ('time >= %r from %r: %r', u, start, w1))
    elif GT(want1, T):
        E.prove(w1 is None, 'till-reached-ends-the-run')
    ne = log.first(0, 'nesting')
    if ne is None:
        return
    E.reach('nested')
    nd = log.first(0, 'nested-done')
    if not E.prove(nd is not None, 'nested-run-returns'):
        return
    E.prove(EQ(nd[2], start + d0) and EQ(nd[3], nd[2]), 'outer-clock-unchanged-by-nested-run')
    ins, inw = log.first('in', 'start'), log.first('in', 'woke')
    if LT(istart, iT):
        E.prove(ins is not None and EQ(ins[2], istart), 'nested-simulation-has-its-own-clock')
    wantv = MAX(v, istart)
    if LT(wantv, iT):
        E.prove(inw is not None and EQ(inw[2], wantv), 'nested-wait-resumes-at-its-date',
                ('nested time >= %r from %r, till %r: %r', v, istart, iT, inw))
    elif GT(wantv, iT):
        E.prove(inw is None, 'nested-till-ends-the-nested-run')
    for ev in log.events:
        if ev[0] == 'in':
            E.prove(LE(ev[2], iT), 'nested-till-ends-the-nested-run')
    E.reach_if(EQ(iT, T), 'equal-till-dates')
    E.reach_if(EQ(v, u), 'equal-wait-dates')
    an = log.first(0, 'after-nested')
    if LT(start + d0 + 1, T):
        E.prove(an is not None and EQ(an[2], start + d0 + 1), 'outer-simulation-continues-undisturbed')


def fam_float_till(E):
    """IEEE double dates (z3 floating point): run(start=s, till=t) stops exactly when the clock
    reads t - an activity that is torn down at the end sees time.now == t, nothing runs later,
    and a sleeper due strictly before t still runs at its exact date"""
    s0 = E.float('s', 0.0, 50.0)
    t = E.float('t', 0.0, 100.0)
    d = E.float('d', 0.0, 100.0)
    E.assume(GE(t, s0), 'till >= start')
    log = Log()

    async def idler():
        try:
            await eternity
        finally:
            log('idle', 'stopped', STATE.loop.time)

    async def sleeper():
        await (time + d)
        log('sl', 'woke')

    out = simulate(idler(), sleeper(), start=s0, till=t, log=log, probe=Probe(check_clock=False),
                   wrap_start=False)
    bad = classify_run_exception(out.exc, allowed=())
    E.prove(bad is None, 'run-ends-normally', bad)
    st = log.first('idle', 'stopped')
    if st is not None:
        E.reach('torn-down-at-till')
        E.prove(EQ(st[3], t), 'run-stops-exactly-at-till',
                ('run(start=%r, till=%r) stopped at %r', s0, t, st[3]))
    wk = log.first('sl', 'woke')
    if wk is not None:
        E.prove(LE(wk[2], t), 'nothing-runs-later-than-till')
        E.prove(EQ(wk[2], s0 + d), 'sleeper-wakes-at-its-date')
    elif LT(s0 + d, t):
        E.fail('sleeper-due-before-till-runs')


FAMILIES = [
    Family('nested_dates', fam_nested_dates, quick=dict(), thorough=dict(real=True),
           reach=['nested', 'equal-till-dates', 'equal-wait-dates'],
           bounds='outer run(till=T) with a date waiter, nested run(till=iT) with a date waiter; '
                  'all dates symbolic in [0,50] (equal dates in both simulations included)'),
    Family('float_till', fam_float_till, quick=dict(), thorough=dict(),
           reach=['torn-down-at-till'],
           bounds='run(start=s, till=t) with IEEE double s in [0,50], t in [s,100], one sleeper '
                  'with a double delay'),
    Family('sequence', fam_sequence,
           quick=dict(nruns=2, kinds=[SUCCESS, RAISES, RETURNS, NESTED, WAITERS, TILL]),
           thorough=dict(nruns=2, kinds=[SUCCESS, RAISES, RETURNS, NESTED, WAITERS, TILL]),
           reach=['raises', 'returns-value', 'nested', 'quiescent-with-waiters', 'till'],
           bounds='2 (thorough 3) runs in sequence'),
    Family('bystanders', fam_sequence,
           quick=dict(nruns=2, kinds=[SUCCESS, RAISES, WAITERS], bystanders=True),
           reach=['raises', 'quiescent-with-waiters', 'suspended-bystander'],
           bounds='2 runs in sequence; a further root activity is still suspended when the run '
                  'ends (failure of another root / quiescence): inside try/finally code that '
                  'uses the simulation, or inside a scope with a regular and a volatile child'),
    Family('sequence3', fam_sequence,
           thorough=dict(nruns=3, kinds=[SUCCESS, RAISES, NESTED, TILL], _max_paths=900000,
                         _max_wall=1200),
           reach=['raises', 'nested', 'till'], bounds='3 runs in sequence, 4 kinds'),
    Family('sequence_real', fam_sequence,
           thorough=dict(nruns=2, kinds=[SUCCESS, RAISES, NESTED], real=True),
           bounds='exact rational dates'),
    Family('threads', fam_threads,
           quick=dict(max_switches=10),
           thorough=dict(max_switches=14),
           reach=['switched', 'no-switch', 'switched-3-times'],
           bounds='2 threads, hand-over decided at up to 10 (thorough 14) activation boundaries'),
]
