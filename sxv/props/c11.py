"""
C11  Channel broadcasts every message to every subscribed consumer, in order, once.

Producers put numbered messages at symbolic dates; consumers subscribe at symbolic dates
(iteration with a symbolic per-item processing time, or a single await); the channel is closed
at a symbolic date (or by a final closer); one consumer may be removed by a fault at (c,p).
Oracle: each consumer must see exactly the accepted puts logged after its own subscription.
"""
from usim import time, Scope, Channel, StreamClosed, instant

from ..engine import EQ, GE, LE, LT, GT, AND, OR, NOT, IMPLIES, MAX, MIN
from ..explore import Family
from ..kit import Log, simulate, now, classify_run_exception, Fault, Payload

BOUNDS = ('np<=2 producers x 2 puts with gaps in [0,15]; nc<=3 consumers subscribing in [0,15], '
          'iteration (processing time w in [0,10] per item) or single await; close at z in '
          '[0,40] or by the final closer at 200; fault cancel/interrupt/close on consumer 0 at '
          '(c,p), p<=1, both placements')
ASSUMPTIONS = ['consumers do not suppress CancelTask / GeneratorExit']

ITER, SINGLE = 0, 1


def fam_channel(E, np_, nc, fault_kinds, real=False, pmax=2, slow=True, close_modes=2,
                placements=True, nputs=2):
    gaps = [[E.num('g%d_%d' % (i, j), 0, 15, real=real) for j in range(nputs)] for i in range(np_)]
    subs = [E.num('s%d' % i, 0, 15, real=real) for i in range(nc)]
    ckind = [E.pick('ck%d' % i, 2) for i in range(nc)]
    w = E.num('w', 0, 10, real=real) if slow else 0
    closing = E.pick('closing', close_modes) == 1
    z = E.num('z', 0, 40, real=real) if closing else None
    fault = Fault(E, 'f', fault_kinds, hi=40, pmax=pmax, real=real, placements=placements)
    ch = Channel()
    log = Log()

    def producer(i):
        async def run():
            name = 'p%d' % i
            for j in range(nputs):
                await (time + gaps[i][j])
                msg = Payload((i, j))
                log(name, 'put-call', msg)
                try:
                    await ch.put(msg)
                except StreamClosed:
                    log(name, 'put-refused', msg)
                    return
                log(name, 'put-done', msg)
        return run

    def consumer(i):
        async def run():
            name = 'c%d' % i
            await (time + subs[i])
            log(name, 'sub')
            if ckind[i] == ITER:
                async for msg in ch:
                    log(name, 'got', msg)
                    if i == 0 and slow:
                        await (time + w)
                log(name, 'end')
            else:
                try:
                    msg = await ch
                except StreamClosed:
                    log(name, 'closed')
                    return
                log(name, 'got', msg)
                log(name, 'end')
        return run

    async def closer(date, name):
        await (time + date)
        log(name, 'close-call')
        await ch.close()
        log(name, 'close-done')

    async def root():
        async with Scope() as top:
            for i in range(np_):
                top.do(producer(i)())
            for i in range(nc):
                fn = consumer(i)
                if i == 0 and fault.kind != Fault.NONE:
                    fault.spawn(top, fn, log)
                else:
                    top.do(fn())
            if closing:
                top.do(closer(z, 'z'))
            top.do(closer(200, 'Z'))

    out = simulate(root(), log=log)
    bad = classify_run_exception(out.exc, allowed=())
    E.prove(bad is None, 'run-ends-normally', bad)
    if out.exc is not None:
        return
    E.reach(Fault.NAMES[fault.kind])
    ev = log.events
    refused = [e[3] for e in ev if e[1] == 'put-refused']
    first_close = next((log.pos(e) for e in ev if e[1] == 'close-call'), None)
    puts = [(log.pos(e), e[3]) for e in ev if e[1] == 'put-call' and e[3] not in refused]
    for e in ev:
        if e[1] == 'put-refused':
            E.reach('put-after-close')
            call = next(x for x in ev if x[1] == 'put-call' and x[3] == e[3])
            E.prove(first_close < log.pos(call), 'put-refused-only-when-closed')
        if e[1] == 'put-done':
            call = next(x for x in ev if x[1] == 'put-call' and x[3] == e[3])
            E.prove(first_close is None or log.pos(call) < first_close, 'put-on-closed-raises')
    fpos = log.pos(log.first('f', 'fault')) if log.first('f', 'fault') else None
    for i in range(nc):
        name = 'c%d' % i
        sub = log.first(name, 'sub')
        if sub is None:
            E.prove(i == 0 and fault.kind != Fault.NONE, 'consumer-subscribed')
            continue
        spos = log.pos(sub)
        got = [e[3] for e in log.of(name, 'got')]
        expect_all = [m for pos, m in puts if pos > spos]
        faulted = i == 0 and fault.kind != Fault.NONE
        if ckind[i] == ITER:
            if faulted:
                # it receives a prefix of what it would have received, never something else
                E.prove(got == expect_all[:len(got)], 'removed-consumer-saw-a-correct-prefix',
                        ('got %r, expected prefix of %r', got, expect_all))
                if fpos is not None and spos < fpos and not log.has(name, 'end'):
                    E.reach('fault-hits-subscribed-consumer')
            else:
                E.prove(got == expect_all, 'consumer-receives-every-message-after-subscription',
                        ('%s subscribed at log position %d: got %r, expected %r',
                         name, spos, got, expect_all))
                end = log.first(name, 'end')
                if E.prove(end is not None, 'iteration-ends-after-close'):
                    E.prove(first_close is not None and first_close < log.pos(end),
                            'iteration-ends-only-after-close')
                if len(got) > 1:
                    E.reach('several-messages')
        else:
            closed = log.first(name, 'closed')
            if first_close is not None and first_close < spos:
                E.reach('await-on-closed')
                E.prove(closed is not None and not got, 'await-on-closed-channel-raises')
            elif faulted and not got and closed is None:
                pass
            elif expect_all and (first_close is None or
                                 any(pos < first_close for pos, m in puts if pos > spos)):
                E.prove(got == expect_all[:1], 'single-await-returns-first-message-after-wait',
                        ('%s waited from log position %d: got %r, expected %r',
                         name, spos, got, expect_all[:1]))
            else:
                E.prove(closed is not None and not got, 'waiting-on-close-raises-StreamClosed')
    # timing: a message is received by an idle iterating consumer in the time step of the put
    for i in range(1, nc):
        name = 'c%d' % i
        if ckind[i] != ITER:
            continue
        for e in log.of(name, 'got'):
            call = next(x for x in ev if x[1] == 'put-call' and x[3] == e[3])
            E.prove(EQ(e[2], call[2]), 'delivered-in-time-step-of-put',
                    ('%r put at %r, received by %s at %r', e[3], call[2], name, e[2]))


ALLF = [Fault.NONE, Fault.CANCEL, Fault.INTERRUPT, Fault.CLOSE]
def fam_double(E, real=False, nputs=3):
    """one activity holds two subscriptions at once: it iterates over the channel and its loop
    body additionally does a single `await channel`; a second, plain iterating consumer runs
    next to it.  Every subscription is independent of every other one."""
    gaps = [E.num('g%d' % j, 0, 10, real=real) for j in range(nputs)]
    subs = [E.num('s%d' % i, 0, 10, real=real) for i in range(2)]
    ch = Channel()
    log = Log()

    async def producer():
        for j in range(nputs):
            await (time + gaps[j])
            log('p', 'put-call', j)
            await ch.put(j)
        await (time + 50)
        await ch.close()

    async def double():
        await (time + subs[0])
        log('c0', 'sub')
        async for msg in ch:
            log('c0', 'got', msg)
            if not log.has('c0', 'inner-call'):
                log('c0', 'inner-call')
                try:
                    inner = await ch
                except StreamClosed:
                    log('c0', 'inner-closed')
                else:
                    log('c0', 'inner-got', inner)
        log('c0', 'end')

    async def plain():
        await (time + subs[1])
        log('c1', 'sub')
        async for msg in ch:
            log('c1', 'got', msg)
        log('c1', 'end')

    async def root():
        async with Scope() as top:
            top.do(producer())
            top.do(double())
            top.do(plain())

    out = simulate(root(), log=log)
    bad = classify_run_exception(out.exc, allowed=())
    E.prove(bad is None, 'run-ends-normally', bad)
    if out.exc is not None:
        return
    ev = log.events
    puts = [(log.pos(e), e[3]) for e in ev if e[1] == 'put-call']
    for name in ('c0', 'c1'):
        sub = log.first(name, 'sub')
        expect = [m for pos, m in puts if pos > log.pos(sub)]
        got = [e[3] for e in log.of(name, 'got')]
        E.prove(got == expect, 'consumer-receives-every-message-after-subscription',
                ('%s subscribed at %r: expected %r, received %r', name, sub[2], expect, got))
        E.prove(log.has(name, 'end'), 'iteration-ends-after-close')
    ic = log.first('c0', 'inner-call')
    if ic is not None:
        E.reach('two-subscriptions-of-one-activity')
        later = [m for pos, m in puts if pos > log.pos(ic)]
        ig = log.first('c0', 'inner-got')
        if later:
            E.prove(ig is not None and ig[3] == later[0],
                    'single-await-returns-first-message-after-wait',
                    ('inner await expected %r, got %r', later[0], ig))
        else:
            E.prove(ig is None and log.has('c0', 'inner-closed'), 'single-await-raises-after-close')


FAMILIES = [
    Family('double_sub', fam_double, quick=dict(), thorough=dict(real=True, nputs=4),
           reach=['two-subscriptions-of-one-activity'],
           bounds='an iterating consumer whose loop body does a single await on the same channel '
                  '(two live subscriptions of one activity) next to a plain iterating consumer; '
                  '3 (thorough 4) puts'),
    Family('p1c2', fam_channel,
           quick=dict(np_=1, nc=2, fault_kinds=ALLF, pmax=2, slow=False, close_modes=1,
                      placements=False),
           thorough=dict(np_=1, nc=2, fault_kinds=ALLF, pmax=2),
           reach=['none', 'cancel', 'interrupt', 'close',
                  'fault-hits-subscribed-consumer', 'several-messages'],
           bounds='1 producer x 2 puts, 2 consumers (consumer 0 faulted; quick: closed only by '
                  'the final closer, attacker placed after the victim)'),
    Family('slow_or_p2', fam_channel,
           quick=dict(np_=1, nc=2, fault_kinds=[Fault.NONE], slow=True, close_modes=2),
           thorough=dict(np_=2, nc=2, fault_kinds=[Fault.NONE], slow=False, close_modes=2,
                         _max_paths=900000, _max_wall=1200),
           reach=['none', 'put-after-close', 'await-on-closed'],
           bounds='quick: 1 producer, 2 consumers, consumer 0 slow, no fault; thorough: 2 producers x 2 puts, 2 consumers'),
    Family('p2x1', fam_channel,
           quick=dict(np_=2, nc=2, fault_kinds=[Fault.NONE], slow=False, close_modes=1, nputs=1),
           thorough=dict(np_=2, nc=2, fault_kinds=[Fault.NONE, Fault.CANCEL], slow=False, nputs=1),
           reach=['none'],
           bounds='2 producers x 1 put (puts may coincide in one time step), 2 consumers'),
    Family('c3', fam_channel,
           quick=dict(np_=1, nc=3, fault_kinds=[Fault.NONE], slow=False, close_modes=1),
           reach=['none', 'several-messages'],
           bounds='1 producer x 2 puts, 3 consumers subscribing / leaving at different dates'),
    Family('p1c3', fam_channel,
           thorough=dict(np_=1, nc=3, fault_kinds=[Fault.NONE, Fault.CLOSE], pmax=2,
                         slow=False, placements=False, close_modes=1, _max_paths=900000,
                         _max_wall=1200),
           bounds='1 producer, 3 consumers'),
    Family('p1c2_real', fam_channel,
           thorough=dict(np_=1, nc=2, fault_kinds=[Fault.NONE, Fault.CANCEL], real=True),
           bounds='as p1c2, exact rational dates'),
]
