"""
C18  SimPy layer: events fire once; processes resume with the right value and time.

Families over the real usim.py Environment / Event / Timeout / Process / AllOf / AnyOf code:
 * event:     a shared event triggered (succeed / fail) at symbolic date u; waiters (SimPy
              processes and native activities) start waiting at symbolic dates before or after
              u; callbacks; a second trigger attempt.
 * composite: Timeout, sub-process return value, AllOf / AnyOf over timeouts with symbolic
              delays (ties included).
 * interrupt: interrupt(cause) at symbolic dates (one or two per time step, a late one).
 * until:     env.run(until=date | event) with ticking processes; failed events.
 * embedded:  a native simulation hosting an environment: processes yielding native
              notifications / coroutines, native activities awaiting SimPy events.
"""
import usim
from usim import time, Scope, instant
from usim.py import Environment
from usim.py.exceptions import Interrupt

from ..engine import EQ, NE, GE, LE, LT, GT, AND, OR, NOT, IMPLIES, MAX, MIN, SNum
from ..explore import Family
from ..kit import Log, simulate, classify_run_exception, UserErr, now, Payload

PROC_RESULT = Payload(('proc-result', 0))    # falsy return value of a process

BOUNDS = ('dates / delays in [0,15]; event family: 2 (thorough 3) waiters of kind process / '
          'native activity, trigger succeed / fail, second trigger; composite: 3 timeouts; '
          'interrupt: 2 interrupts; until: 2 tickers; embedded: 1 process + 1 native activity')
ASSUMPTIONS = ['env.run(until=T) is called with T >= env.now']


def run_env(E, env, log, until=None, allowed=()):
    out = simulate(env.until(until), log=log)
    return out


def fam_event(E, nwait, real=False):
    u = E.num('u', 0, 15, real=real)
    fails = E.flag('fails')
    w = [E.num('w%d' % i, 0, 15, real=real) for i in range(nwait)]
    native = [E.flag('native%d' % i) for i in range(nwait)]
    handles = E.flag('handles') if fails else True       # waiters catch the failure
    u2 = E.num('u2', 0, 15, real=real)                    # second trigger attempt
    log = Log()
    env = Environment()
    ev = env.event()
    value = Payload(('value', 0))      # falsy: a value must never be judged by its truth
    err = UserErr('event failed')
    calls = []
    ev.callbacks.append(lambda e: calls.append(('cb1', e)))
    ev.callbacks.append(lambda e: calls.append(('cb2', e)))

    def trigger():
        yield env.timeout(u)
        log('t', 'trigger')
        if fails:
            ev.fail(err)
        else:
            ev.succeed(value)
        log('t', 'state', ev.triggered, ev.ok)

    def second():
        yield env.timeout(u2)
        if ev.triggered:
            try:
                ev.succeed('again')
                log('s', 'second-accepted')
            except RuntimeError:
                log('s', 'second-refused')

    def waiter(i):
        yield env.timeout(w[i])
        log(i, 'wait', ev.triggered)
        try:
            got = yield ev
            log(i, 'got', got is value)
        except UserErr as exc:
            log(i, 'raised', exc is err)
            if not handles:
                raise

    async def native_waiter(i):
        await (time + w[i])
        log(i, 'wait', ev.triggered)
        try:
            got = await ev
            log(i, 'got', got is value)
        except UserErr as exc:
            log(i, 'raised', exc is err)
            if not handles:
                raise

    env.process(trigger())
    env.process(second())
    for i in range(nwait):
        if native[i]:
            env.schedule(native_waiter(i))
        else:
            env.process(waiter(i))
    out = run_env(E, env, log)
    tr = log.first('t', 'trigger')
    if not E.prove(tr is not None and EQ(tr[2], u), 'trigger-happens-at-u'):
        return
    unhandled = fails and not handles
    early = [i for i in range(nwait) if LT(w[i], u)]        # waiting before the trigger
    if fails and handles and not early:
        # nobody is waiting when the failed event is processed: as in SimPy the failure may
        # count as unhandled (ends the run) or be picked up by a waiter arriving in that step
        E.reach('failure-races-with-waiters')
        E.prove(out.exc is None or out.exc is err, 'only-the-event-exception-may-end-the-run')
        return
    if unhandled or (fails and nwait == 0):
        E.reach('unhandled-failure')
        E.prove(out.exc is err or (isinstance(out.exc, usim.Concurrent) and err in out.exc.children)
                if out.exc is not None else False,
                'unhandled-failed-event-ends-the-run-with-its-exception', ('%r', out.exc))
    else:
        bad = classify_run_exception(out.exc, allowed=())
        E.prove(bad is None, 'run-ends-normally', bad)
        if out.exc is not None:
            return
    # state right after triggering
    st = log.first('t', 'state')
    E.prove(st is not None and st[3] is True and st[4] is (not fails), 'triggered-and-ok-flags')
    # every waiter resumes at the time of the trigger (or at once if it fired before)
    for i in range(nwait):
        wt = log.first(i, 'wait')
        res = log.first(i, 'got') or log.first(i, 'raised')
        if wt is None:
            E.prove(unhandled, 'waiter-started')
            continue
        if unhandled and res is None:
            continue        # the run was ended by the failure before this waiter's turn
        if E.prove(res is not None, 'waiter-resumes', ('waiter %d (native=%s)', i, native[i])):
            E.prove(EQ(res[2], MAX(w[i], u)), 'waiter-resumes-at-trigger-time',
                    ('waiter %d waited from %r, trigger at %r, resumed at %r', i, w[i], u, res[2]))
            E.prove(res[1] == ('raised' if fails else 'got') and res[3] is True,
                    'waiter-receives-the-value-or-exception')
            if wt[3]:
                E.reach('waited-for-fired-event')
            else:
                E.reach('waited-before-trigger')
    # callbacks run exactly once
    if out.exc is None:
        E.prove(sorted(c[0] for c in calls) == ['cb1', 'cb2'] and all(c[1] is ev for c in calls),
                'callbacks-run-exactly-once', ('%r', [c[0] for c in calls]))
        E.prove(ev.processed, 'event-processed')
    # a second trigger is an error
    if log.has('s', 'second-accepted'):
        E.fail('second-trigger-is-an-error')
    if log.has('s', 'second-refused'):
        E.reach('second-trigger-refused')
        E.prove(ev.value is (err if fails else value), 'value-unchanged-by-second-trigger')


def fam_composite(E, real=False):
    d = [E.num('d%d' % i, 0, 15, real=real) for i in range(3)]
    ds = E.num('ds', 0, 15, real=real)
    log = Log()
    env = Environment()
    marks = [object() for _ in range(3)]
    result = object()

    def sub():
        yield env.timeout(ds)
        log('sub', 'end')
        return result

    def parent():
        got = yield env.process(sub())
        log('par', 'sub-result', got is result)

    def any_waiter():
        ts = [env.timeout(d[i], value=marks[i]) for i in range(3)]
        cv = yield env.any_of(ts)
        log('any', 'fired', tuple(i for i in range(3) if ts[i] in cv),
            tuple(cv[ts[i]] is marks[i] for i in range(3) if ts[i] in cv))

    def all_waiter():
        ts = [env.timeout(d[i], value=marks[i]) for i in range(3)]
        cv = yield env.all_of(ts)
        log('all', 'fired', tuple(i for i in range(3) if ts[i] in cv),
            tuple(cv[ts[i]] is marks[i] for i in range(3)))

    def op_waiter():
        t0, t1 = env.timeout(d[0], value=marks[0]), env.timeout(d[1], value=marks[1])
        t2 = env.timeout(d[2], value=marks[2])
        cv = yield (t0 & t1) | t2
        log('op', 'fired', tuple(i for i, t in enumerate((t0, t1, t2)) if t in cv))

    def op2_waiter():
        # an inner any-condition that may fire long before the outer all-condition; members of
        # the inner one that fire in between belong to the outer value as well
        t0, t1 = env.timeout(d[0], value=marks[0]), env.timeout(d[1], value=marks[1])
        t2 = env.timeout(d[2], value=marks[2])
        cv = yield (t0 | t1) & t2
        log('op2', 'fired', tuple(i for i, t in enumerate((t0, t1, t2)) if t in cv))

    def plain():
        for i in range(3):
            t0 = env.now
            v = yield env.timeout(d[i], value=marks[i])
            log('pl', 'timeout', i, t0, v is marks[i])

    for p in (parent, any_waiter, all_waiter, op_waiter, op2_waiter, plain):
        env.process(p())
    out = run_env(E, env, log)
    bad = classify_run_exception(out.exc, allowed=())
    E.prove(bad is None, 'run-ends-normally', bad)
    if out.exc is not None:
        return
    sr, se = log.first('par', 'sub-result'), log.first('sub', 'end')
    if E.prove(sr is not None and se is not None, 'sub-process-completes'):
        E.prove(EQ(se[2], ds) and EQ(sr[2], ds) and sr[3] is True,
                'process-fires-with-return-value-when-generator-ends')
    lo = MIN(MIN(d[0], d[1]), d[2])
    hi = MAX(MAX(d[0], d[1]), d[2])
    an, al, op = log.first('any', 'fired'), log.first('all', 'fired'), log.first('op', 'fired')
    if E.prove(an is not None and al is not None and op is not None, 'conditions-fire'):
        E.prove(EQ(an[2], lo), 'AnyOf-fires-with-first-member', ('%r vs %r', an[2], lo))
        E.prove(EQ(al[2], hi), 'AllOf-fires-with-last-member', ('%r vs %r', al[2], hi))
        E.prove(EQ(op[2], MIN(MAX(d[0], d[1]), d[2])), 'operator-conditions-compose')
        # (t0 & t1) | t2 exposes exactly the members that have fired by then, also those of
        # the nested condition that is still pending
        for i in range(3):
            if LT(d[i], op[2]):
                E.prove(i in op[3], 'nested-condition-exposes-fired-members',
                        ('member %d fired at %r before %r but is not exposed: %r', i, d[i], op[2], op[3]))
            elif GT(d[i], op[2]):
                E.prove(i not in op[3], 'condition-exposes-only-fired-members')
        op2 = log.first('op2', 'fired')
        if E.prove(op2 is not None, 'conditions-fire'):
            E.prove(EQ(op2[2], MAX(MIN(d[0], d[1]), d[2])), 'operator-conditions-compose')
            for i in range(3):
                if LT(d[i], op2[2]):
                    E.prove(i in op2[3], 'nested-condition-exposes-fired-members',
                            ('(t0|t1)&t2: member %d fired at %r before %r but is not exposed: %r',
                             i, d[i], op2[2], op2[3]))
                elif GT(d[i], op2[2]):
                    E.prove(i not in op2[3], 'condition-exposes-only-fired-members')
        E.prove(all(an[4]) and all(al[4]), 'condition-value-maps-members-to-their-values')
        E.prove(al[3] == (0, 1, 2), 'AllOf-exposes-all-members')
        # AnyOf exposes exactly the members that have fired by then
        for i in range(3):
            if i in an[3]:
                E.prove(EQ(d[i], lo), 'AnyOf-exposes-only-fired-members',
                        ('member %d (delay %r) exposed at %r', i, d[i], lo))
        E.prove(len(an[3]) >= 1, 'AnyOf-exposes-the-member-that-fired')
        if len(an[3]) > 1:
            E.reach('simultaneous-members')
    t = 0
    for i in range(3):
        ev = [e for e in log.of('pl', 'timeout') if e[3] == i]
        if E.prove(len(ev) == 1, 'timeouts-fire'):
            E.prove(EQ(ev[0][2], ev[0][4] + d[i]) and ev[0][5] is True,
                    'Timeout-fires-exactly-delay-later-with-its-value')


def fam_interrupt(E, real=False):
    d1 = E.num('d1', 0, 15, real=real)
    d2 = E.num('d2', 0, 15, real=real)
    c = E.num('c', 0, 15, real=real)
    c2 = E.num('c2', 0, 15, real=real)
    double = E.flag('double')           # two interrupts in the same turn at c
    log = Log()
    env = Environment()
    box = {}
    old = env.event()
    old.succeed('old news')             # processed long before anybody yields it

    def victim():
        k = 0
        for j, d in enumerate((d1, d2)):
            target = env.now + d
            while True:
                try:
                    yield env.timeout(target - env.now)
                    break
                except Interrupt as intr:
                    k += 1
                    log('v', 'interrupted', intr.cause, j)
                    if k == 1:
                        # the handler waits for an event that fired long ago: a queued second
                        # interrupt must be raised here (one per yield, in call order)
                        try:
                            news = yield old
                            log('v', 'old-event', news)
                        except Interrupt as intr2:
                            k += 1
                            log('v', 'interrupted', intr2.cause, j)
            log('v', 'step', j)
        log('v', 'end')
        return 'done'

    def attacker():
        yield env.timeout(c)
        v = box['v']
        log('a', 'interrupt', 'c1', v.is_alive)
        v.interrupt('c1')
        if double:
            log('a', 'interrupt', 'c1b', v.is_alive)
            v.interrupt('c1b')

    def attacker2():
        yield env.timeout(c2)
        v = box['v']
        log('a', 'interrupt', 'c2', v.is_alive)
        v.interrupt('c2')

    def shut_down(event):
        # "first one done shuts everything down": interrupting a finished process - also the one
        # whose completion is being announced - is ignored
        log('cb', 'shut-down')
        box['v'].interrupt('shut-down')

    box['v'] = env.process(victim())
    box['v'].callbacks.append(shut_down)
    env.process(attacker())
    env.process(attacker2())
    out = run_env(E, env, log)
    bad = classify_run_exception(out.exc, allowed=())
    E.prove(bad is None, 'run-ends-normally', bad)
    if out.exc is not None:
        return
    E.prove(len(log.of('cb', 'shut-down')) == 1, 'callback-invoked-exactly-once')
    try:
        box['v'].interrupt('after the run')
        late = None
    except BaseException as err:        # noqa
        late = err
    E.prove(late is None, 'interrupt-of-a-finished-process-is-ignored', ('raised %r', late))
    end = log.first('v', 'end')
    if E.prove(end is not None, 'victim-finishes'):
        E.prove(EQ(end[2], d1 + d2), 'interrupts-do-not-change-the-schedule',
                ('victim ended at %r, expected %r', end[2], d1 + d2))
    sent = [e for e in log.of('a', 'interrupt')]
    got = [e for e in log.of('v', 'interrupted')]
    live = [e for e in sent if e[4]]
    # delivered exactly the interrupts sent while alive, in call order, in the same time step
    E.prove([e[3] for e in got] == [e[3] for e in live],
            'interrupts-delivered-once-each-in-call-order',
            ('sent while alive %r, received %r', [e[3] for e in live], [e[3] for e in got]))
    for s_, g in zip(live, got):
        E.prove(EQ(s_[2], g[2]), 'interrupt-delivered-in-the-same-time-step',
                ('%s sent at %r, received at %r', s_[3], s_[2], g[2]))
    if any(not e[4] for e in sent):
        E.reach('interrupt-after-finish-ignored')
    if double and len(live) >= 2:
        E.reach('two-interrupts-in-one-step')
        # the second interrupt of the step is delivered at the very next yield
        vlog = [e for e in log.of('v') if e[1] in ('interrupted', 'old-event', 'step', 'end')]
        for k, e in enumerate(vlog):
            if e[1] == 'interrupted' and e[3] == 'c1':
                nxt = vlog[k + 1] if k + 1 < len(vlog) else None
                E.prove(nxt is not None and nxt[1] == 'interrupted' and nxt[3] == 'c1b',
                        'queued-interrupt-raised-at-the-next-yield', ('%r', nxt and nxt[1:4]))
    if got:
        E.reach('interrupted')


def fam_until(E, mode, real=False):
    T = E.num('T', 0, 15, real=real)
    p1 = E.num('p1', 1, 10, real=real)
    p2 = E.num('p2', 1, 10, real=real)
    log = Log()
    env = Environment()
    value = Payload(('value', 0))      # falsy: a value must never be judged by its truth
    err = UserErr('failed')
    ev = env.event()

    def ticker(name, p):
        while env.now < 40:
            yield env.timeout(p)
            log(name, 'tick')

    def firer():
        yield env.timeout(T)
        log('f', 'fire')
        if mode == 'event':
            ev.succeed(value)
        elif mode == 'failing-event':
            ev.fail(err)

    env.process(ticker('a', p1))
    env.process(ticker('b', p2))
    # the until-event may have been triggered before the (not yet started) environment runs:
    # it still has to be processed - callbacks exactly once - and run() ends at once with its value
    pre = mode == 'event' and E.flag('pre')
    calls = []
    ev.callbacks.append(lambda e: calls.append(e))
    if pre:
        ev.succeed(value)
    elif mode != 'date':
        env.process(firer())
    res = exc = None
    from ..probe import Probe
    probe = Probe()
    with probe.installed():
        try:
            res = env.run(until=T if mode == 'date' else ev)
        except BaseException as e:      # noqa
            if E.void:
                raise
            exc = e
    log.active = False
    if mode == 'failing-event':
        E.reach('failing')
        # run() documents Union[None, V, Exception]: the failure is raised or returned
        E.prove(exc is err or (exc is None and res is err),
                'failed-until-event-is-reported-by-run', ('raised %r, returned %r', exc, res))
        return
    E.prove(exc is None, 'run-ends-normally', ('%r', exc))
    if exc is not None:
        return
    if mode == 'event':
        E.prove(res is value, 'run-returns-the-value-of-the-until-event')
    if pre:
        E.reach('until-event-triggered-before-the-run')
        # (for an event triggered *during* the run the simulation stops in the turn the trigger
        # is noticed; whether its other callbacks still run then is not judged here)
        E.prove(len(calls) == 1 and calls[0] is ev and ev.processed,
                'callbacks-invoked-exactly-once', ('%d calls, processed %r', len(calls), ev.processed))
        E.prove(EQ(env.now, 0), 'run-stops-exactly-at-until', ('env.now %r', env.now))
        for e in log.events:
            E.prove(LE(e[2], 0), 'nothing-runs-after-until', ('%r at %r', e[:2], e[2]))
        return
    E.prove(EQ(env.now, T), 'run-stops-exactly-at-until',
            ('until %r, env.now afterwards %r', T, env.now))
    for e in log.events:
        E.prove(LE(e[2], T), 'nothing-runs-after-until', ('%r at %r, until %r', e[:2], e[2], T))
    for (_, t, _, _, _) in probe.activations:
        E.prove(LE(t, T), 'nothing-runs-after-until', ('activation at %r, until %r', t, T))
    # everything strictly before T did run
    for name, p in (('a', p1), ('b', p2)):
        k = 1
        ticks = log.of(name, 'tick')
        while k <= 15 and LT(k * p, T):
            E.prove(len(ticks) >= k and EQ(ticks[k - 1][2], k * p), 'work-before-until-is-done')
            k += 1
    E.reach(mode)


def fam_embedded(E, real=False):
    d = E.num('d', 0, 15, real=real)
    u = E.num('u', 0, 15, real=real)
    w = E.num('w', 0, 15, real=real)
    start = E.num('start', 0, 10, real=real)      # the environment is entered at this date
    log = Log()
    value = Payload(('value', 0))      # falsy: a value must never be judged by its truth
    S = {}

    async def coro_result():
        await (time + d)
        return value

    def proc(env):
        t0 = env.now
        yield usim.time + d if GT(d, 0) else usim.instant       # a native notification
        log('p', 'after-notification', t0)
        got = yield coro_result()                                 # a native coroutine
        log('p', 'after-coroutine', got is value)
        yield env.timeout(u)
        S['ev'].succeed(value)
        log('p', 'fired')
        return PROC_RESULT

    async def native(env):
        await (time + w)
        got = await S['ev']                                       # a SimPy event
        log('n', 'event', got is value)
        got = await S['proc']                                     # a SimPy process
        log('n', 'process', got)

    async def main():
        await (time + start)
        env0 = Environment()
        pre = env0.timeout(u, value=value)        # created by set-up code before entering
        async with env0 as env:
            def pre_waiter():
                got = yield pre
                log('pre', 'fired', got is value)
            env.process(pre_waiter())
            S['ev'] = env.event()
            S['proc'] = env.process(proc(env))
            env.schedule(native(env))
            log('m', 'entered', env.now)
        log('m', 'left')

    out = simulate(main(), log=log)
    bad = classify_run_exception(out.exc, allowed=())
    E.prove(bad is None, 'run-ends-normally', bad)
    if out.exc is not None:
        return
    en = log.first('m', 'entered')
    E.prove(en is not None and EQ(en[2], start) and EQ(en[3], start), 'env.now-is-the-host-time')
    a, b, f = log.first('p', 'after-notification'), log.first('p', 'after-coroutine'), log.first('p', 'fired')
    if E.prove(a is not None and b is not None and f is not None, 'process-runs'):
        E.prove(EQ(a[2], start + d), 'process-resumes-after-native-notification')
        E.prove(EQ(b[2], start + d + d) and b[3] is True, 'process-receives-coroutine-result')
        E.prove(EQ(f[2], start + d + d + u), 'process-timeout-in-host-time')
    n1, n2 = log.first('n', 'event'), log.first('n', 'process')
    if E.prove(n1 is not None and n2 is not None, 'native-activity-resumes'):
        fire = start + d + d + u
        E.prove(EQ(n1[2], MAX(start + w, fire)) and n1[3] is True,
                'activity-receives-event-value-at-trigger-time')
        E.prove(EQ(n2[2], MAX(start + w, fire)) and n2[3] is PROC_RESULT,
                'activity-receives-process-return-value')
    pf = log.first('pre', 'fired')
    E.prove(pf is not None and EQ(pf[2], start + u) and pf[3] is True,
            'timeout-created-before-entering-fires-delay-after-entering',
            ('environment entered at %r, timeout(%r) fired at %r', start, u, pf and pf[2]))
    lf = log.first('m', 'left')
    E.prove(lf is not None, 'environment-block-ends')


def fam_abandoned(E, real=False):
    """a native activity (or a process with a timeout) starts waiting for an event and gives up
    at a symbolic date g; the event fails at a symbolic date u.  A waiter that is still there
    receives the exception; if nobody waits any more the failure is unhandled and ends the run
    with that exception - an abandoned wait must leave nothing behind in the event."""
    u = E.num('u', 0, 15, real=real)
    g = E.num('g', 0, 15, real=real)
    w = E.num('w', 0, 5, real=real)
    native = E.flag('native')
    log = Log()
    env = Environment()
    ev = env.event()
    err = UserErr('event failed')

    def trigger():
        yield env.timeout(u)
        log('t', 'trigger')
        ev.fail(err)

    async def native_waiter():
        await (time + w)
        log('w', 'wait')
        try:
            async with usim.until(time + g):
                await ev
                log('w', 'got')
        except UserErr as exc:
            log('w', 'raised', exc is err)
        log('w', 'left')
        await (time + 40)

    def process_waiter():
        yield env.timeout(w)
        log('w', 'wait')
        try:
            yield ev | env.timeout(g)
            log('w', 'got')
        except UserErr as exc:
            log('w', 'raised', exc is err)
        log('w', 'left')
        yield env.timeout(40)

    env.process(trigger())
    if native:
        env.schedule(native_waiter())
    else:
        env.process(process_waiter())
    out = run_env(E, env, log)
    tr = log.first('t', 'trigger')
    if not E.prove(tr is not None and EQ(tr[2], u), 'trigger-happens-at-u'):
        return
    gone = w + g          # the date at which the waiter gives up
    if LT(u, w):
        # failed before anybody waited: unhandled at u
        E.reach('failed-before-the-wait')
        E.prove(out.exc is err, 'unhandled-failed-event-ends-the-run-with-its-exception',
                ('%r', out.exc))
    elif GT(u, gone):
        E.reach('failed-after-the-wait-was-abandoned')
        E.prove(out.exc is err, 'unhandled-failed-event-ends-the-run-with-its-exception',
                ('the only waiter gave up at %r, the event failed at %r, run() ended with %r',
                 gone, u, out.exc))
        lf = log.first('w', 'left')
        E.prove(lf is not None and EQ(lf[2], gone) and not log.has('w', 'raised'),
                'abandoned-wait-ends-at-its-deadline')
    elif GT(u, w) and LT(u, gone):
        E.reach('failed-while-waited-for')
        rs = log.first('w', 'raised')
        E.prove(out.exc is None, 'handled-failure-does-not-end-the-run', ('%r', out.exc))
        E.prove(rs is not None and EQ(rs[2], u) and rs[3] is True,
                'waiter-receives-the-value-or-exception')


def fam_queue_process(E, real=False):
    """a process receives from a native usim Queue by `yield queue` (a native awaitable) while a
    native producer puts two items and another process interrupts it at a symbolic date - also
    in the very time step of a put / of the hand-over of an item.  Nothing may be lost:
    every item put is received by the process exactly once and in order, and every interrupt is
    raised in it exactly once."""
    g = [E.num('g%d' % i, 0, 10, real=real) for i in range(2)]
    c = E.num('c', 0, 25, real=real)
    c2 = E.num('c2', 0, 10, real=real)
    ifirst = E.flag('ifirst')
    log = Log()
    q = usim.Queue()
    S = {}

    def consumer(env):
        for _ in range(8):
            try:
                item = yield q
                log('c', 'got', item)
            except Interrupt as irq:
                log('c', 'interrupt', irq.cause)
            except usim.StreamClosed:
                log('c', 'closed')
                return 'done'
        log('c', 'gave-up')

    async def producer():
        for j in range(2):
            await (time + g[j])
            log('p', 'put', j)
            await q.put(j)
        await (time + 60)
        await q.close()

    def interrupter(env):
        yield env.timeout(c)
        for k, pause in enumerate((c2, None)):
            if S['c'].is_alive:
                log('i', 'interrupt', k)
                S['c'].interrupt(k)
            if pause is not None:
                yield env.timeout(pause)

    async def main():
        async with Environment() as env:
            if ifirst:
                env.process(interrupter(env))
            S['c'] = env.process(consumer(env))
            env.schedule(producer())
            if not ifirst:
                env.process(interrupter(env))

    out = simulate(main(), log=log)
    bad = classify_run_exception(out.exc, allowed=())
    E.prove(bad is None, 'run-ends-normally', bad)
    if out.exc is not None:
        return
    got = [e[3] for e in log.of('c', 'got')]
    E.prove(got == [0, 1], 'process-receives-every-item-exactly-once-in-order',
            ('put [0, 1], the process received %r', got))
    sent = log.of('i', 'interrupt')
    recv = log.of('c', 'interrupt')
    E.prove([e[3] for e in recv] == [e[3] for e in sent], 'every-interrupt-raised-exactly-once',
            ('issued %r, raised %r', [e[3] for e in sent], [e[3] for e in recv]))
    for a, b in zip(sent, recv):
        E.prove(EQ(a[2], b[2]), 'interrupt-raised-in-the-time-step-of-the-call',
                ('interrupt %r issued at %r, raised at %r', a[3], a[2], b[2]))
    E.prove(log.has('c', 'closed') and not log.has('c', 'gave-up'), 'process-ends-with-the-stream')
    for j in range(2):
        pj = [e for e in log.of('p', 'put') if e[3] == j][0]
        gj = [e for e in log.of('c', 'got') if e[3] == j]
        if gj:
            E.prove(EQ(gj[0][2], pj[2]), 'item-received-in-the-time-step-of-its-put')
            E.reach_if(AND(*[EQ(x[2], pj[2]) for x in sent[:1]]) if sent else False,
                       'interrupt-in-the-time-step-of-a-put')


FAMILIES = [
    Family('event', fam_event, quick=dict(nwait=2), thorough=dict(nwait=3),
           reach=['unhandled-failure', 'waited-for-fired-event', 'waited-before-trigger',
                  'second-trigger-refused'],
           bounds='shared event, 2 (thorough 3) waiters'),
    Family('composite', fam_composite, quick=dict(), thorough=dict(real=True),
           reach=['simultaneous-members'], bounds='Timeout, Process, AllOf, AnyOf, & and |'),
    Family('interrupt', fam_interrupt, quick=dict(), thorough=dict(real=True),
           reach=['interrupted', 'interrupt-after-finish-ignored', 'two-interrupts-in-one-step'],
           bounds='up to three interrupts'),
    Family('until_date', fam_until, quick=dict(mode='date'), thorough=dict(mode='date', real=True),
           reach=['date'], bounds='env.run(until=T)'),
    Family('until_event', fam_until, quick=dict(mode='event'), thorough=dict(mode='event'),
           reach=['event', 'until-event-triggered-before-the-run'],
           bounds='env.run(until=event), the event triggered by a process at a symbolic date or before the run'),
    Family('until_failing', fam_until, quick=dict(mode='failing-event'),
           thorough=dict(mode='failing-event'), reach=['failing'],
           bounds='env.run(until=event that fails)'),
    Family('abandoned_wait', fam_abandoned, quick=dict(), thorough=dict(real=True),
           reach=['failed-before-the-wait', 'failed-after-the-wait-was-abandoned',
                  'failed-while-waited-for'],
           bounds='one waiter (native activity in until(time + g), or process yielding '
                  'event | timeout(g)) that may give up before the event fails at u'),
    Family('queue_process', fam_queue_process, quick=dict(), thorough=dict(real=True),
           reach=['interrupt-in-the-time-step-of-a-put'],
           bounds='a process receiving from a native Queue by `yield queue`, 2 puts, 2 interrupts '
                  'at symbolic dates (also in the time step of a put), both spawn orders'),
    Family('embedded', fam_embedded, quick=dict(), thorough=dict(real=True),
           bounds='environment hosted by a native simulation'),
]
