"""
C07  until()/run(till) end the block exactly when the notification fires, else never.

 * kinds:  one until-block entered at symbolic date e around a body (sleeps b) and a child
           (sleeps d), for ten kinds of notification with symbolic parameters; a trailing sleep
           after the block.
 * nested: two nested until-blocks with date notifications (equal / ordered both ways).
 * till:   run(..., till=T) with activities sleeping / ticking around T.
Oracle: exit instant == min(effective trigger, completion) with the effective trigger from the
clock model of C01; no exception; nothing of body/children afterwards; the trailing sleep is
exact; under till nothing runs later than T.
"""
from usim import time, Scope, until, instant, eternity, Flag, Tracked, interval
from usim._primitives.context import ScopeClosed

from ..engine import EQ, GE, LE, LT, GT, AND, OR, NOT, IMPLIES, MAX, MIN, INF
from ..explore import Family
from ..kit import Log, simulate, now, classify_run_exception, UserErr, at_cp
from ..probe import Probe

BOUNDS = ('entry date e, body b, child d, trailing sleep w, notification parameter u (and u2) '
          'in [0,30] (dates may lie before, at or after the entry); setter postponements p<=1; '
          'nested: two date notifications of kinds ==, >=, +; till: 2 sleepers x 2 sleeps and '
          'a ticker (period in [8,30]), T in [start, start+40]')
ASSUMPTIONS = ['run(till=T) is used with T >= start']

(DELAY, MOMENT, AFTER, BEFORE, FLAG, INV_FLAG, TRACKED, TASK_DONE, OR_FLAG_MOMENT,
 AND_FLAG_AFTER) = range(10)
NAMES = ['time+u', 'time==u', 'time>=u', 'time<u', 'flag', '~flag', 'tracked>=1', 'task.done',
         'flag|time==u2', 'flag&time>=u2']
NEVER = INF


def trigger_model(kind, e, u, u2):
    """effective trigger instant of a notification subscribed at date e (INF = never)"""
    if kind == DELAY:
        return e + u
    if kind == MOMENT:
        return u if u >= e else NEVER
    if kind == AFTER:
        return u if u >= e else e
    if kind == BEFORE:
        return e if e < u else NEVER
    if kind in (FLAG, INV_FLAG, TRACKED, TASK_DONE):
        return u if u >= e else e          # the change happens at u; already true on entry if u<e
    if kind == OR_FLAG_MOMENT:
        tf = u if u >= e else e
        tm = u2 if u2 >= e else NEVER
        return tf if (tm is NEVER or tf <= tm) else tm
    if kind == AND_FLAG_AFTER:
        tf = u if u >= e else e
        ta = u2 if u2 >= e else e
        return tf if tf >= ta else ta
    raise AssertionError(kind)


def fam_kinds(E, kinds, real=False, pmax=2):
    kind = kinds[E.pick('kind', len(kinds))]
    e = E.num('e', 0, 30, real=real)
    b = E.num('b', 0, 30, real=real)
    d = E.num('d', 0, 30, real=real)
    w = E.num('w', 0, 30, real=real)
    u = E.num('u', 0, 30, real=real)
    u2 = E.num('u2', 0, 30, real=real) if kind in (OR_FLAG_MOMENT, AND_FLAG_AFTER) else None
    p = E.pick('p', pmax) if kind in (FLAG, INV_FLAG, TRACKED) else 0
    log = Log()
    flag = Flag()
    tracked = Tracked(E.const(0))
    S = {}

    async def changer():
        if kind == INV_FLAG:
            await flag.set(True)
        await at_cp(u, p)
        log('chg', 'change')
        if kind in (FLAG, OR_FLAG_MOMENT, AND_FLAG_AFTER):
            await flag.set(True)
        elif kind == INV_FLAG:
            await flag.set(False)
        elif kind == TRACKED:
            await tracked.set(E.const(1))

    async def sleeper():
        await at_cp(u, 0)
        log('task', 'end')

    async def follow_up():
        log('ch', 'follow-up')
        await (time + 1)
        log('ch', 'follow-up-2')

    async def child():
        log('ch', 'start')
        try:
            await (time + d)
        except GeneratorExit:
            # closed by the trigger: clean-up code that tries to spawn into the ending scope
            payload = follow_up()
            try:
                S['scope'].do(payload)
            except ScopeClosed:
                log('ch', 'follow-up-refused')
            raise
        log('ch', 'end')

    def notification():
        if kind == DELAY:
            return time + u
        if kind == MOMENT:
            return time == u
        if kind == AFTER:
            return time >= u
        if kind == BEFORE:
            return time < u
        if kind == FLAG:
            return flag
        if kind == INV_FLAG:
            return ~flag
        if kind == TRACKED:
            return tracked >= 1
        if kind == TASK_DONE:
            return S['task'].done
        if kind == OR_FLAG_MOMENT:
            return flag | (time == u2)
        if kind == AND_FLAG_AFTER:
            return flag & (time >= u2)

    async def owner():
        await at_cp(e, 1 if kind == INV_FLAG else 0)
        log('own', 'enter')
        try:
            async with until(notification()) as scope:
                S['scope'] = scope
                scope.do(child())
                await (time + b)
                log('own', 'body-end')
            log('own', 'exit', None)
        except BaseException as exc:      # noqa
            log('own', 'exit', exc)
            return
        await (time + w)
        log('own', 'after')

    async def root():
        async with Scope() as top:
            if kind == TASK_DONE:
                S['task'] = top.do(sleeper())
            if kind in (FLAG, INV_FLAG, TRACKED, OR_FLAG_MOMENT, AND_FLAG_AFTER):
                top.do(changer())
            top.do(owner())

    out = simulate(root(), log=log, probe=Probe(check_clock=real != 'float'))
    bad = classify_run_exception(out.exc, allowed=())
    E.prove(bad is None, 'run-ends-normally', bad)
    if out.exc is not None:
        return
    ent = log.first('own', 'enter')
    ex = log.first('own', 'exit')
    if not E.prove(ent is not None and ex is not None, 'block-entered-and-left'):
        return
    E.prove(EQ(ent[2], e), 'entered-at-e')
    E.prove(ex[3] is None, 'until-block-never-raises', ('%r', ex[3]))
    tau = trigger_model(kind, e, u, u2)
    T = e + MAX(b, d)
    if tau is NEVER:
        E.reach('never-fires')
        want = T
    else:
        want = MIN(tau, T)
        E.reach_if(LT(tau, T), 'trigger-first')
        E.reach_if(GT(tau, T), 'completion-first')
        E.reach_if(EQ(tau, T), 'trigger-equals-completion')
        E.reach_if(EQ(tau, e), 'true-on-entry')
    E.prove(EQ(ex[2], want), 'block-ends-at-min(trigger,completion)',
            ('%s entered at %r: trigger %r, completion %r, left at %r',
             NAMES[kind], e, tau, T, ex[2]))
    # nothing of body / child after the exit
    for ev in log.events[log.pos(ex) + 1:]:
        E.prove(ev[0] != 'ch' and ev[1] != 'body-end', 'no-body-or-child-code-after-exit',
                ('%r %r at %r', ev[0], ev[1], ev[2]))
    E.prove(not log.has('ch', 'follow-up'), 'spawn-from-cleanup-of-closed-child-refused')
    completed = log.has('own', 'body-end') and log.has('ch', 'end')
    if tau is NEVER or LT(T, tau):
        E.prove(completed, 'completes-when-trigger-is-later')
    elif LT(tau, T):
        E.prove(not completed, 'abandoned-when-trigger-is-earlier')
    # afterwards the notification has no effect on the activity
    af = log.first('own', 'after')
    if E.prove(af is not None, 'activity-continues-after-block'):
        E.prove(EQ(af[2], ex[2] + w), 'later-wait-unaffected-by-notification',
                ('left at %r, slept %r, resumed at %r', ex[2], w, af[2]))


def fam_float_until(E):
    """IEEE double dates (z3 floating point): the block must end exactly at the date"""
    e = E.float('e', 0.0, 50.0)
    u = E.float('u', 0.0, 100.0)
    moment = E.flag('moment')
    log = Log()

    async def owner():
        await (time + e)
        log('own', 'enter')
        async with until((time == u) if moment else (time >= u)):
            await eternity
        log('own', 'exit')

    out = simulate(owner(), log=log, probe=Probe(check_clock=False))
    bad = classify_run_exception(out.exc, allowed=())
    E.prove(bad is None, 'run-ends-normally', bad)
    ent, ex = log.first('own', 'enter'), log.first('own', 'exit')
    if not E.prove(ent is not None, 'entered'):
        return
    if GE(u, ent[2]):
        E.reach('fires')
        if E.prove(ex is not None, 'block-ends'):
            E.prove(EQ(ex[2], u), 'block-ends-exactly-at-the-date',
                    ('until(date %r) entered at %r ended at %r', u, ent[2], ex[2]))
    elif moment:
        E.reach('never-fires')
        E.prove(ex is None, 'passed-moment-never-fires')
    else:
        E.prove(ex is not None and EQ(ex[2], ent[2]), 'already-true-ends-at-entry')


def fam_nested(E, kinds=(MOMENT, AFTER, DELAY), real=False, shared=False):
    k1 = kinds[E.pick('k1', len(kinds))]
    k2 = kinds[E.pick('k2', len(kinds))]
    u1 = E.num('u1', 0, 30, real=real)
    u2 = E.num('u2', 0, 30, real=real)
    e = E.num('e', 0, 30, real=real)
    b = E.num('b', 0, 30, real=real)      # inner body
    b2 = E.num('b2', 0, 30, real=real)    # rest of the outer body
    w = E.num('w', 0, 30, real=real)
    log = Log()

    def notif(kind, u):
        return (time + u) if kind == DELAY else ((time == u) if kind == MOMENT else (time >= u))

    async def owner():
        await at_cp(e, 0)
        n1 = notif(k1, u1)
        # shared: both scopes listen on the very same notification object
        n2 = n1 if shared else notif(k2, u2)
        try:
            async with until(n1):
                try:
                    async with until(n2):
                        await (time + b)
                        log('own', 'inner-body-end')
                finally:
                    log('own', 'inner-exit')
                log('own', 'between')
                await (time + b2)
                log('own', 'outer-body-end')
            log('own', 'outer-exit', None)
        except BaseException as exc:     # noqa
            log('own', 'outer-exit', exc)
            return
        await (time + w)
        log('own', 'after')

    out = simulate(owner(), log=log)
    bad = classify_run_exception(out.exc, allowed=())
    E.prove(bad is None, 'run-ends-normally', bad)
    if out.exc is not None:
        return
    ie, oe = log.first('own', 'inner-exit'), log.first('own', 'outer-exit')
    if not E.prove(ie is not None and oe is not None, 'blocks-left'):
        return
    E.prove(oe[3] is None, 'until-block-never-raises', ('%r', oe[3]))
    t1 = trigger_model(k1, e, u1, None)
    t2 = t1 if shared else trigger_model(k2, e, u2, None)
    Ti = e + b
    want_i = Ti
    for t in (t1, t2):
        if t is not NEVER:
            want_i = MIN(want_i, t)
    E.prove(EQ(ie[2], want_i), 'inner-ends-at-min(own,outer,completion)',
            ('inner left at %r, expected %r', ie[2], want_i))
    # the outer block: completion is inner exit + b2 unless the outer trigger struck
    if t1 is NEVER:
        want_o = want_i + b2
        E.reach('outer-never')
    else:
        want_o = MIN(t1, want_i + b2)
        E.reach_if(EQ(t1, t2) if t2 is not NEVER else False, 'equal-deadlines')
        E.reach_if(LT(t1, t2) if t2 is not NEVER else False, 'outer-first')
        E.reach_if(GT(t1, t2) if t2 is not NEVER else False, 'inner-first')
    E.prove(EQ(oe[2], want_o), 'outer-ends-at-min(trigger,completion)',
            ('outer left at %r, expected %r', oe[2], want_o))
    if t1 is not NEVER and LT(t1, want_i + b2):
        E.prove(not log.has('own', 'outer-body-end'), 'outer-body-abandoned')
        if LT(t1, Ti) and (t2 is NEVER or LT(t1, t2)):
            # outer trigger strictly first: the inner block does not complete and the code
            # between the blocks never runs
            E.prove(not log.has('own', 'inner-body-end') and not log.has('own', 'between'),
                    'outer-trigger-unwinds-both')
    af = log.first('own', 'after')
    if E.prove(af is not None, 'activity-continues-after-block'):
        E.prove(EQ(af[2], oe[2] + w), 'later-wait-unaffected-by-notification')


def fam_reuse(E, kinds=(MOMENT, AFTER, DELAY), real=False):
    """one stored date notification object is used twice by the same activity, in two separate
    phases: as the notification of an until-block around a sleep, or awaited directly inside an
    until(time + x) block that may abandon the wait.  Every use is judged on its own by the
    clock model - whatever an earlier (completed, abandoned or interrupted) use left behind in
    the object must not matter."""
    kind = kinds[E.pick('kind', len(kinds))]
    u = E.num('u', 0, 40, real=real)
    e = E.num('e', 0, 20, real=real)
    use = [E.pick('use%d' % i, 2) for i in range(2)]
    b = [E.num('b%d' % i, 0, 30, real=real) for i in range(2)]
    gap = E.num('gap', 0, 20, real=real)
    log = Log()

    async def owner():
        await at_cp(e, 0)
        # (a stored delay object `time + u` waits u from the moment of each use)
        n = (time + u) if kind == DELAY else ((time == u) if kind == MOMENT else (time >= u))
        for i in range(2):
            log('own', 'enter', i)
            try:
                if use[i] == 0:
                    async with until(n):
                        await (time + b[i])
                        log('own', 'body-end', i)
                else:
                    async with until(time + b[i]):
                        await n
                        log('own', 'body-end', i)
                log('own', 'exit', i, None)
            except BaseException as exc:     # noqa
                log('own', 'exit', i, exc)
                return
            await (time + gap)

    out = simulate(owner(), log=log)
    bad = classify_run_exception(out.exc, allowed=())
    E.prove(bad is None, 'run-ends-normally', bad)
    if out.exc is not None:
        return
    entry = e
    for i in range(2):
        en = [x for x in log.of('own', 'enter') if x[3] == i]
        ex = [x for x in log.of('own', 'exit') if x[3] == i]
        if not E.prove(len(en) == 1 and len(ex) == 1, 'blocks-left', ('use %d', i)):
            return
        E.prove(ex[0][4] is None, 'until-block-never-raises', ('%r', ex[0][4]))
        E.prove(EQ(en[0][2], entry), 'enters-on-time')
        t = trigger_model(kind, entry, u, None)
        want = entry + b[i] if t is NEVER else MIN(t, entry + b[i])
        E.prove(EQ(ex[0][2], want), 'block-ends-at-min(trigger,completion)',
                ('use %d (%s) of a reused %s entered at %r: left at %r, expected %r', i,
                 'until(n)' if use[i] == 0 else 'await n in until(time+b)', NAMES[kind], entry,
                 ex[0][2], want))
        done = any(x[3] == i for x in log.of('own', 'body-end'))
        if use[i] == 1:
            # the direct wait completes iff its date comes no later than the enclosing timeout
            if t is not NEVER and LT(t, entry + b[i]):
                E.prove(done, 'direct-wait-completes')
            if t is NEVER or GT(t, entry + b[i]):
                E.prove(not done, 'direct-wait-abandoned')
                E.reach('first-wait-abandoned' if i == 0 else 'second-wait-abandoned')
        if i == 1:
            E.reach_if(True if t is NEVER else False, 'second-use-never')
            if t is not NEVER and kind != DELAY:
                E.reach_if(EQ(t, entry), 'second-use-already-true')
        entry = want + gap


def fam_reuse_runs(E, kinds=(MOMENT, AFTER, DELAY), real=False):
    """one stored date notification object is used in two *consecutive simulations* (run() calls
    with symbolic start times, so that the second one may start before the date the first one
    has passed): each simulation has its own clock, whatever the first left in the object must
    not matter"""
    kind = kinds[E.pick('kind', len(kinds))]
    u = E.num('u', 0, 40, real=real)
    n = (time + u) if kind == DELAY else ((time == u) if kind == MOMENT else (time >= u))
    for i in range(2):
        start = E.num('start%d' % i, 0, 40, real=real)
        use = E.pick('use%d' % i, 2)
        b = E.num('b%d' % i, 0, 30, real=real)
        log = Log()

        async def owner():
            log('own', 'enter')
            try:
                if use == 0:
                    async with until(n):
                        await (time + b)
                        log('own', 'body-end')
                else:
                    async with until(time + b):
                        await n
                        log('own', 'body-end')
                log('own', 'exit', None)
            except BaseException as exc:     # noqa
                log('own', 'exit', exc)

        # the first simulation may be *aborted*: another root activity fails one time unit after
        # the owner's block is over at the latest (a date trigger may still be pending then)
        aborted = i == 0 and E.flag('abort0')
        err = UserErr('first simulation aborted')

        async def failer():
            await (time + (b + 1))
            raise err

        if aborted:
            out = simulate(owner(), failer(), start=start, log=log)
            E.prove(out.exc is err, 'aborted-run-reraises-the-failure', ('%r', out.exc))
            E.reach('first-simulation-aborted')
        else:
            out = simulate(owner(), start=start, log=log)
            bad = classify_run_exception(out.exc, allowed=())
            E.prove(bad is None, 'run-ends-normally', bad)
            if out.exc is not None:
                return
        en, ex = log.first('own', 'enter'), log.first('own', 'exit')
        if not E.prove(en is not None and ex is not None, 'blocks-left', ('run %d', i)):
            return
        E.prove(ex[3] is None, 'until-block-never-raises', ('%r', ex[3]))
        E.prove(EQ(en[2], start), 'enters-on-time')
        t = trigger_model(kind, start, u, None)
        want = start + b if t is NEVER else MIN(t, start + b)
        E.prove(EQ(ex[2], want), 'block-ends-at-min(trigger,completion)',
                ('run %d from %r: %s of a stored %s: left at %r, expected %r', i, start,
                 'until(n)' if use == 0 else 'await n in until(time+b)', NAMES[kind], ex[2], want))
        done = log.has('own', 'body-end')
        if use == 1:
            if t is not NEVER and LT(t, start + b):
                E.prove(done, 'direct-wait-completes')
            if t is NEVER or GT(t, start + b):
                E.prove(not done, 'direct-wait-abandoned')
        if i == 1:
            E.reach('second-run')
            if kind != DELAY:
                E.reach_if(LT(start, u), 'second-run-starts-before-the-date')


def fam_till(E, real=False, ticker=True):
    start = E.num('start', -10, 10, real=real)
    dT = E.num('dT', 0, 40, real=real)
    T = start + dT
    ds = [[E.num('d%d_%d' % (i, j), 0, 30, real=real) for j in range(2)] for i in range(2)]
    per = E.num('per', 8, 30, real=real) if ticker else None
    log = Log()

    async def sleeper(i):
        log(i, 'start')
        for j in range(2):
            await (time + ds[i][j])
            log(i, 'step', j)

    async def tick():
        n = 0
        async for _ in interval(per):
            log('tick', 'tick')
            n += 1
            if n > 45:
                break

    roots = [sleeper(0), sleeper(1)] + ([tick()] if ticker else [])
    probe = Probe()
    out = simulate(*roots, start=start, till=T, log=log, probe=probe)
    bad = classify_run_exception(out.exc, allowed=())
    E.prove(bad is None, 'run-ends-normally', bad)
    if out.exc is not None:
        return
    for (_, t, _, _, _) in probe.activations:
        E.prove(LE(t, T), 'nothing-runs-later-than-till', ('activation at %r, till %r', t, T))
    for i in range(2):
        t = start
        if GT(T, start):
            E.prove(log.has(i, 'start'), 'roots-start')
        for j in range(2):
            t = t + ds[i][j]
            ev = [x for x in log.of(i, 'step') if x[3] == j]
            if LT(t, T):
                E.reach('before-till')
                E.prove(len(ev) == 1 and EQ(ev[0][2], t), 'work-before-till-is-done')
            elif GT(t, T):
                E.reach('after-till')
                E.prove(not ev, 'work-after-till-is-not-done')
            else:
                E.reach('at-till')
                E.prove(not ev or EQ(ev[0][2], t), 'work-at-till-exact')


ALLK = list(range(10))
FAMILIES = [
    Family('kinds', fam_kinds,
           quick=dict(kinds=ALLK),
           thorough=dict(kinds=ALLK, pmax=3),
           reach=['never-fires', 'trigger-first', 'completion-first', 'trigger-equals-completion',
                  'true-on-entry'],
           bounds='single until-block, 10 notification kinds'),
    Family('kinds_real', fam_kinds, thorough=dict(kinds=ALLK, real=True),
           bounds='as kinds, exact rational dates'),
    Family('float_until', fam_float_until, quick=dict(), thorough=dict(),
           reach=['fires', 'never-fires'],
           bounds='IEEE double dates: until(time == u) / until(time >= u) entered at a float date'),
    Family('nested', fam_nested,
           quick=dict(),
           thorough=dict(),
           reach=['equal-deadlines', 'outer-first', 'inner-first', 'outer-never'],
           bounds='two nested until-blocks, kinds ==, >=, +'),
    Family('nested_shared', fam_nested,
           quick=dict(kinds=(MOMENT, AFTER), shared=True),
           thorough=dict(kinds=(MOMENT, AFTER, DELAY), shared=True),
           reach=['equal-deadlines', 'outer-never'],
           bounds='two nested until-blocks on one and the same notification object'),
    Family('reuse_runs', fam_reuse_runs, quick=dict(), thorough=dict(real=True),
           reach=['second-run', 'second-run-starts-before-the-date', 'first-simulation-aborted'],
           bounds='one stored `time == u` / `time >= u` / `time + u` object used in two consecutive '
                  'simulations with symbolic start times'),
    Family('reuse', fam_reuse, quick=dict(), thorough=dict(real=True),
           reach=['first-wait-abandoned', 'second-use-already-true', 'second-use-never'],
           bounds='a stored time == u / time >= u / time + u object used in two successive phases (until(n) '
                  'around a sleep, or awaited inside until(time + b)), u in [0,40]'),
    Family('till', fam_till,
           quick=dict(ticker=False),
           thorough=dict(ticker=True),
           reach=['before-till', 'after-till', 'at-till'],
           bounds='run(till=T) with 2 sleepers x 2 sleeps (thorough: plus an interval ticker)'),
]


def fam_inner_scope(E, kinds=(MOMENT, AFTER, DELAY), real=False):
    """until(n) around a plain Scope opened by the same activity: n may fire while the activity
    is inside the inner body, while it waits in the inner scope's exit for an unfinished child
    (graceful shutdown), between the blocks, or in the rest of the outer body"""
    k1 = kinds[E.pick('k1', len(kinds))]
    u1 = E.num('u1', 0, 30, real=real)
    e = E.num('e', 0, 30, real=real)
    b = E.num('b', 0, 30, real=real)      # inner body
    d = E.num('d', 0, 30, real=real)      # child of the inner scope
    b2 = E.num('b2', 0, 30, real=real)    # rest of the outer body
    w = E.num('w', 0, 30, real=real)
    volatile = E.flag('volatile')         # a second, volatile child of the inner scope
    log = Log()

    async def child(name, delay):
        try:
            await (time + delay)
            log(name, 'end')
        finally:
            log(name, 'left')

    async def owner():
        await at_cp(e, 0)
        n1 = (time + u1) if k1 == DELAY else ((time == u1) if k1 == MOMENT else (time >= u1))
        try:
            async with until(n1):
                try:
                    async with Scope() as inner:
                        inner.do(child('c', d))
                        if volatile:
                            inner.do(child('v', 100), volatile=True)
                        await (time + b)
                        log('own', 'inner-body-end')
                finally:
                    log('own', 'inner-exit')
                log('own', 'between')
                await (time + b2)
                log('own', 'outer-body-end')
            log('own', 'outer-exit', None)
        except BaseException as exc:     # noqa
            log('own', 'outer-exit', exc)
            return
        await (time + w)
        log('own', 'after')

    out = simulate(owner(), log=log)
    bad = classify_run_exception(out.exc, allowed=())
    E.prove(bad is None, 'run-ends-normally', bad)
    if out.exc is not None:
        return
    ie, oe = log.first('own', 'inner-exit'), log.first('own', 'outer-exit')
    if not E.prove(ie is not None and oe is not None, 'blocks-left'):
        return
    E.prove(oe[3] is None, 'until-block-never-raises', ('%r', oe[3]))
    t1 = trigger_model(k1, e, u1, None)
    Ti = e + MAX(b, d)                    # the inner scope waits for its non-volatile child
    done = Ti + b2
    want_o = done if t1 is NEVER else MIN(t1, done)
    want_i = Ti if t1 is NEVER else MIN(t1, Ti)
    E.prove(EQ(ie[2], want_i), 'inner-scope-left-at-min(trigger,completion)',
            ('inner left at %r, expected %r', ie[2], want_i))
    E.prove(EQ(oe[2], want_o), 'block-ends-at-min(trigger,completion)',
            ('until block left at %r, expected %r', oe[2], want_o))
    if t1 is not NEVER and LT(t1, done):
        E.prove(not log.has('own', 'outer-body-end'), 'body-abandoned-when-notification-fires')
        if LT(t1, Ti):
            E.prove(not log.has('own', 'between'), 'body-abandoned-when-notification-fires',
                    'code between the blocks ran although the notification fired first')
            if GT(t1, e + b) and LT(e + b, e + d):
                E.reach('fires-while-inner-scope-waits-for-its-child')
    # children of the inner scope never outlive it, whatever ended it
    for name in ('c', 'v'):
        left = log.first(name, 'left')
        if left is not None:
            E.prove(LE(left[2], ie[2]), 'inner-children-closed-with-the-block',
                    ('%s left at %r, inner scope at %r', name, left[2], ie[2]))
    if volatile:
        # (a volatile child closed before its first turn runs no code at all)
        E.prove(not log.has('v', 'end'), 'volatile-child-closed')
    # nothing of the block runs after it ended
    pos = log.pos(oe)
    late = [x for x in log.events[pos + 1:] if x[1] in ('inner-body-end', 'between',
                                                         'outer-body-end', 'end', 'left')]
    E.prove(not late, 'nothing-of-the-block-runs-afterwards', ('%r', [x[:2] for x in late]))
    af = log.first('own', 'after')
    if E.prove(af is not None, 'activity-continues-after-block'):
        E.prove(EQ(af[2], oe[2] + w), 'later-wait-unaffected-by-notification')


FAMILIES.append(
    Family('inner_scope', fam_inner_scope,
           quick=dict(kinds=(MOMENT, DELAY)),
           thorough=dict(kinds=(MOMENT, AFTER, DELAY), real=True),
           reach=['fires-while-inner-scope-waits-for-its-child'],
           bounds='until(n) around a plain Scope of the same activity with a child (and '
                  'optionally a volatile child); n of kinds ==, + (thorough: >=, rational dates)'))


def _reuse_connective(E, **kw):
    from .c08 import fam_reuse_cond
    return fam_reuse_cond(E, **kw)


FAMILIES.append(
    Family('reuse_connective', _reuse_connective, quick=dict(modes=(1,), shapes=(0, 1, 2)),
           thorough=dict(modes=(1,), shapes=(0, 1, 2)),
           reach=['second-use-after-the-first-was-released', 'second-use-after-a-reset'],
           bounds='a stored (a & b) | c / a | c object used by two until-blocks entered in [0,30] '
                  'while five flag toggles happen at free gaps in [0,6] (harness shared with C08)'))
