"""
C12  Resources are conserved: never negative, never leaked, claims never wait.

A supply (Resources or Capacities, one or two named resources) with symbolic levels, borrowers
/ claimants with symbolic amounts, arrival and hold times, an optional modifier
(increase / decrease / set at a symbolic date), an optional nested borrow from the share, and
one fault (cancel / until-interrupt / close) on borrower 0 at a symbolic instant (c, p).
Oracle: conservation bounds sampled at every activation boundary, equality at quiescence.
"""
from usim import time, Scope, Resources, Capacities, ResourcesUnavailable, instant

from ..engine import EQ, GE, LE, LT, GT, AND, OR, NOT, IMPLIES, MAX, MIN
from ..explore import Family
from ..kit import Log, simulate, now, classify_run_exception, Fault, STATE
from ..probe import Probe

BOUNDS = ('capacity in [0,20] per resource; nb<=2 (thorough 3) borrowers with amount in [0,20], '
          'arrival and hold in [0,15]; borrower kinds borrow/claim; modifier increase/decrease/'
          'set by a symbolic amount at a symbolic date (Resources only); nested borrow from the '
          'share of borrower 0 with symbolic amount; fault cancel/interrupt/close on borrower 0 '
          'at (c,p), p<=3 (covers both postponements inside acquire and release), both placements')
ASSUMPTIONS = [
    'documented preconditions: amounts >= 0; decrease never below zero; borrowing from '
    'Capacities within the capacity',
]

BORROW, CLAIM = 0, 1
NOMOD, INCREASE, DECREASE, SET = range(4)


def fam_res(E, nb, supply_kind, fault_kinds, claims=True, mods=(NOMOD,), nested=False,
            two=False, real=False, pmax=4, placements=True, reuse=False):
    names = ('x', 'y') if two else ('x',)
    cap = {n: E.num('cap_' + n, 0, 20, real=real) for n in names}
    kinds = [E.pick('kind%d' % i, 2) if claims else BORROW for i in range(nb)]
    amt = [{n: E.num('m%d_%s' % (i, n), 0, 20, real=real) for n in names} for i in range(nb)]
    arr = [E.num('a%d' % i, 0, 15, real=real) for i in range(nb)]
    hold = [E.num('h%d' % i, 0, 15, real=real) for i in range(nb)]
    mod = mods[E.pick('mod', len(mods))] if len(mods) > 1 else mods[0]
    if mod != NOMOD:
        md = E.num('md', 0, 15, real=real)
        mv = E.num('mv', 0, 20, real=real)
    if nested:
        nm = E.num('nm', 0, 20, real=real)
    fault = Fault(E, 'f', fault_kinds, hi=30, pmax=pmax, real=real, placements=placements)
    if supply_kind == 'capacities':
        for i in range(nb):
            for n in names:
                E.assume(LE(amt[i][n], cap[n]), 'borrow from Capacities within capacity')
    zero = 0
    sup = (Resources if supply_kind == 'resources' else Capacities)(zero, **cap)
    log = Log()
    supply = dict(cap)                 # what the supply should hold in total (harness ledger)
    phase = ['none'] * nb              # none | acq | held | rel | ('limbo', time of the fault)
    share_ok = []
    S = {}
    if reuse:
        # second phase: the very borrow object of borrower 0 is entered again at 100, whatever
        # happened to its first use (pseudo borrower nb in the ledger)
        phase.append('none')
        amt.append(amt[0])
    if reuse == 'wait':
        # ... and this second use has to wait (a blocker takes everything there is at 100) and
        # is itself faulted at (c2, p2) while it waits / acquires / holds (pseudo borrower nb+1
        # is the blocker)
        phase.append('none')
        amt.append({n: 0 for n in names})
        fault2 = Fault(E, 'g', [Fault.CANCEL, Fault.INTERRUPT, Fault.CLOSE], lo=100, hi=125,
                       pmax=2, real=real, placements=False)

    def level(n):
        return getattr(sup.levels, n)

    def borrower(i):
        async def run():
            await (time + arr[i])
            if kinds[i] == CLAIM:
                avail = all(level(n) >= amt[i][n] for n in names)
                log(i, 'claim-call', avail)
                ctx = sup.claim(**amt[i])
            else:
                log(i, 'borrow-call')
                ctx = sup.borrow(**amt[i])
                if i == 0:
                    S['ctx0'] = ctx
            phase[i] = 'acq'
            try:
                async with ctx as share:
                    try:
                        phase[i] = 'held'
                        log(i, 'enter')
                        for n in names:
                            E.prove(EQ(getattr(share.levels, n), amt[i][n]), 'share-holds-amount')
                        if nested and i == 0:
                            try:
                                async with share.borrow(x=nm):
                                    log(i, 'nested-enter')
                                    E.prove(GE(share.levels.x, 0), 'share-never-negative')
                                    await (time + 1)
                                log(i, 'nested-left')
                            except AssertionError:
                                log(i, 'nested-rejected')
                        await (time + hold[i])
                        phase[i] = 'rel'
                        log(i, 'leave')
                    except BaseException:
                        phase[i] = 'rel'      # __aexit__ gives back from here on
                        raise
                phase[i] = 'none'
            except ResourcesUnavailable:
                log(i, 'unavailable')
                phase[i] = 'none'
            except BaseException:
                # left by a fault: the give-back may be dispatched to helper activities; it
                # must have happened by the end of this time step
                phase[i] = ('limbo', now())
                log(i, 'left-by-fault')
                raise
            log(i, 'left')
        return run

    async def reuser():
        await (time + 100)
        ctx = S.get('ctx0')
        if ctx is None or not all(level(n) >= amt[0][n] for n in names):
            return
        before = {n: level(n) for n in names}
        phase[nb] = 'acq'
        async with ctx as share:
            phase[nb] = 'held'
            log('R', 'enter')
            for n in names:
                E.prove(EQ(getattr(share.levels, n), amt[0][n]),
                        'reused-share-holds-exactly-its-amount',
                        ('%s: the share offers %r for an amount of %r', n,
                         getattr(share.levels, n), amt[0][n]))
                E.prove(EQ(level(n), before[n] - amt[0][n]), 'reused-borrow-takes-its-amount')
            # the whole share, and not more, can be claimed from it
            async with share.claim(**amt[0]):
                for n in names:
                    E.prove(EQ(getattr(share.levels, n), 0), 'reused-share-holds-exactly-its-amount')
            await (time + 1)
            phase[nb] = 'rel'
        phase[nb] = 'none'
        log('R', 'left')

    async def blocker():
        await (time + 100)
        amt[nb + 1] = {n: level(n) for n in names}
        phase[nb + 1] = 'acq'
        async with sup.borrow(**amt[nb + 1]):
            phase[nb + 1] = 'held'
            await (time + 20)
            phase[nb + 1] = 'rel'
        phase[nb + 1] = 'none'

    async def reuser_wait():
        await (time + 101)
        ctx = S.get('ctx0')
        if ctx is None or phase[0] in ('acq', 'held', 'rel'):
            return        # never created, or its first use is still going on
        log('R', 'again')
        phase[nb] = 'acq'
        try:
            async with ctx:
                try:
                    phase[nb] = 'held'
                    log('R', 'enter')
                    await (time + 1)
                finally:
                    phase[nb] = 'rel'
            phase[nb] = 'none'
        except BaseException:
            phase[nb] = ('limbo', now())
            log('R', 'left-by-fault')
            raise
        log('R', 'left')

    async def modifier():
        await (time + md)
        if mod == INCREASE:
            supply['x'] = supply['x'] + mv
            log('mod', 'increase')
            await sup.increase(x=mv)
        elif mod == DECREASE:
            E.assume(GE(level('x') - mv, 0), 'decrease not below zero')
            supply['x'] = supply['x'] - mv
            log('mod', 'decrease')
            await sup.decrease(x=mv)
        else:
            supply['x'] = supply['x'] - level('x') + mv
            log('mod', 'set')
            await sup.set(x=mv)

    async def root():
        async with Scope() as top:
            for i in range(nb):
                fn = borrower(i)
                if i == 0 and fault.kind != Fault.NONE:
                    fault.spawn(top, fn, log)
                else:
                    top.do(fn())
            if mod != NOMOD:
                top.do(modifier())
            if reuse == 'wait':
                top.do(blocker())
                fault2.spawn(top, reuser_wait, log)
            elif reuse:
                top.do(reuser())

    def in_limbo(ph, t):
        # limbo lasts for the time step of the fault (the loop keeps one date object per step)
        return type(ph) is tuple and (ph[1] is t or (E.concrete and ph[1] == t))

    def hook(loop, target, signal):
        t = loop.time
        for n in names:
            lv = level(n)
            E.prove(GE(lv, 0), 'level-never-negative', ('level %s = %r', n, lv))
            held = 0
            transit = 0
            for i in range(len(phase)):
                ph = phase[i]
                if ph == 'held':
                    held = held + amt[i][n]
                elif ph in ('acq', 'rel') or in_limbo(ph, t):
                    transit = transit + amt[i][n]
            E.prove(LE(lv, supply[n] - held), 'level-at-most-supply-minus-held',
                    ('%s: level %r, supply %r, held %r, phases %r', n, lv, supply[n], held, phase))
            E.prove(GE(lv, supply[n] - held - transit), 'level-at-least-supply-minus-in-flight',
                    ('%s: level %r, supply %r, held %r, in transit %r, phases %r',
                     n, lv, supply[n], held, transit, phase))

    probe = Probe()
    probe.hooks.append(hook)
    out = simulate(root(), log=log, probe=probe)
    bad = classify_run_exception(out.exc, allowed=())
    E.prove(bad is None, 'run-ends-normally', bad)
    if out.exc is not None:
        return
    E.reach(Fault.NAMES[fault.kind])
    if reuse == 'wait':
        again, fl, en = log.first('R', 'again'), log.first('g', 'fault'), log.first('R', 'enter')
        if again is not None and fl is not None and log.pos(again) < log.pos(fl) and \
                (en is None or log.pos(fl) < log.pos(en)) and log.has('R', 'left-by-fault'):
            E.reach('second-use-faulted-before-it-was-served')
    elif reuse and log.has('R', 'enter'):
        E.reach('reused')
        E.prove(log.has('R', 'left'), 'reused-borrow-completes')
    # quiescence: everything is back, unless a borrower waits forever for more than exists
    stuck = [i for i in range(nb) if phase[i] == 'acq']
    for n in names:
        E.prove(EQ(level(n), supply[n]), 'levels-equal-supply-at-quiescence',
                ('%s: level %r, supply %r, phases %r', n, level(n), supply[n], phase))
    for i in stuck:
        # a borrow that never got served: the amount must indeed not be available
        E.reach('borrow-waits-forever')
        E.prove(NOT(AND(*[GE(level(n), amt[i][n]) for n in names])) if fault.kind == Fault.NONE
                or i != 0 else True, 'no-waiter-left-although-available')
    for i in range(nb):
        if kinds[i] == CLAIM:
            call = log.first(i, 'claim-call')
            if call is None:
                continue
            ent, un = log.first(i, 'enter'), log.first(i, 'unavailable')
            if call[3]:
                E.reach('claim-available')
                if un is not None or (ent is None and not (i == 0 and fault.kind != Fault.NONE)):
                    E.fail('claim-enters-when-available')
                if ent is not None:
                    E.prove(EQ(ent[2], call[2]), 'claim-never-waits')
            else:
                E.reach('claim-unavailable')
                E.prove(un is not None and ent is None, 'claim-raises-iff-unavailable')
                if un is not None:
                    E.prove(EQ(un[2], call[2]), 'claim-never-waits')
    if nested:
        ne, nr = log.first(0, 'nested-enter'), log.first(0, 'nested-rejected')
        if ne is not None:
            E.reach('nested-enter')
            E.prove(LE(nm, amt[0]['x']), 'nested-borrow-never-exceeds-share')
        if nr is not None:
            E.reach('nested-rejected')
            E.prove(GT(nm, amt[0]['x']), 'nested-borrow-within-share-accepted')
    f = log.first('f', 'fault')
    if f is not None:
        bc = log.first(0, 'borrow-call') or log.first(0, 'claim-call')
        ent, lv, lf = log.first(0, 'enter'), log.first(0, 'leave'), log.first(0, 'left')
        pf = log.pos(f)
        if bc is not None and log.pos(bc) < pf and (ent is None or log.pos(ent) > pf) and \
                not log.has(0, 'unavailable'):
            E.reach('fault-while-acquiring')
        if lv is not None and log.pos(lv) < pf and (lf is None or log.pos(lf) > pf):
            E.reach('fault-while-releasing')
        if ent is not None and log.pos(ent) < pf and (lv is None or log.pos(lv) > pf):
            E.reach('fault-while-holding')


ALLF = [Fault.NONE, Fault.CANCEL, Fault.INTERRUPT, Fault.CLOSE]
FREACH = ['none', 'cancel', 'interrupt', 'close', 'fault-while-acquiring',
          'fault-while-releasing', 'fault-while-holding']
FAMILIES = [
    Family('res_fault', fam_res,
           quick=dict(nb=2, supply_kind='resources', fault_kinds=ALLF, claims=False, pmax=4,
                      placements=False),
           thorough=dict(nb=2, supply_kind='resources', fault_kinds=ALLF, claims=True, pmax=5),
           reach=FREACH, bounds='Resources(x), 2 borrowers, fault on borrower 0'),
    Family('cap_fault', fam_res,
           quick=dict(nb=2, supply_kind='capacities', fault_kinds=[Fault.NONE, Fault.CANCEL,
                      Fault.CLOSE], claims=False, pmax=4, placements=False),
           thorough=dict(nb=2, supply_kind='capacities', fault_kinds=ALLF, claims=True, pmax=5),
           reach=['none', 'cancel', 'close'], bounds='Capacities(x), 2 borrowers, fault on borrower 0'),
    Family('claims_mod', fam_res,
           quick=dict(nb=2, supply_kind='resources', fault_kinds=[Fault.NONE], claims=True,
                      mods=(NOMOD, INCREASE, DECREASE, SET)),
           thorough=dict(nb=3, supply_kind='resources', fault_kinds=[Fault.NONE], claims=True,
                         mods=(NOMOD, SET), _max_paths=900000, _max_wall=1500),
           reach=['claim-available', 'claim-unavailable', 'borrow-waits-forever'],
           bounds='borrow/claim mix with concurrent increase/decrease/set'),
    Family('two_named', fam_res,
           quick=dict(nb=2, supply_kind='resources', fault_kinds=[Fault.NONE, Fault.CANCEL],
                      claims=False, two=True, pmax=2, placements=False),
           thorough=dict(nb=2, supply_kind='resources', fault_kinds=ALLF, claims=True, two=True,
                         pmax=4, placements=False),
           reach=['none', 'cancel'], bounds='Resources(x, y)'),
    Family('nested', fam_res,
           quick=dict(nb=1, supply_kind='resources', fault_kinds=[Fault.NONE, Fault.CANCEL],
                      claims=False, nested=True, pmax=3, placements=False),
           thorough=dict(nb=2, supply_kind='capacities', fault_kinds=ALLF, claims=False,
                         nested=True, pmax=4, placements=False),
           reach=['nested-enter', 'nested-rejected'],
           bounds='nested borrow from the share of borrower 0'),
    Family('reuse', fam_res,
           quick=dict(nb=1, supply_kind='resources', fault_kinds=ALLF, claims=False, pmax=4,
                      placements=False, reuse=True),
           thorough=dict(nb=2, supply_kind='capacities', fault_kinds=ALLF, claims=False, pmax=5,
                         reuse=True),
           reach=['reused', 'cancel', 'interrupt', 'close', 'fault-while-acquiring'],
           bounds='the borrow object of borrower 0 is entered a second time at 100, after its '
                  'first use completed or was faulted at (c,p)'),
    Family('reuse_wait', fam_res,
           quick=dict(nb=1, supply_kind='resources', fault_kinds=[Fault.NONE, Fault.CANCEL,
                      Fault.CLOSE], claims=False, pmax=3, placements=False, reuse='wait'),
           thorough=dict(nb=1, supply_kind='resources', fault_kinds=ALLF, claims=False, pmax=5,
                         reuse='wait'),
           reach=['cancel', 'close', 'second-use-faulted-before-it-was-served'],
           bounds='as reuse, but the second use has to wait for a blocker that took everything, '
                  'and is cancelled / interrupted / closed at a second symbolic instant'),
    Family('res_fault_real', fam_res,
           thorough=dict(nb=2, supply_kind='resources', fault_kinds=[Fault.NONE, Fault.CANCEL],
                         claims=False, real=True, pmax=4, placements=False),
           bounds='as res_fault, exact rational amounts and dates'),
]
