"""
C13  Pipe shares throughput proportionally; transfers end at the fluid-model time.

Volumes, start offsets and the fault instant are symbolic exact rationals (z3 Reals); the pipe
throughput and the per-transfer limits are drawn from a small concrete table so that every
term stays linear.  Oracle: an independent event-driven processor-sharing (fluid) simulator
over the same symbolic numbers; obligation: every transfer finishes exactly at the model time.
"""
from fractions import Fraction

from usim import time, Scope, Pipe, UnboundedPipe, instant

from ..engine import EQ, GE, LE, LT, GT, AND, OR, NOT, IMPLIES, MAX, MIN, INF
from ..explore import Family
from ..kit import Log, simulate, now, classify_run_exception, Fault
from ..probe import Probe

BOUNDS = ('exact rational arithmetic (no IEEE rounding: the statement allows rounding, the claim '
          'is for exact inputs); volumes in [0,60], start offsets in [0,30], fault instant in '
          '[0,60]; 2 (thorough 3) transfers; (pipe throughput, limits) from a concrete table '
          'covering uncongested, congested-equal, congested-unequal and default-limit cases; '
          'fault cancel/interrupt/close on transfer 0; UnboundedPipe; zero volume')
ASSUMPTIONS = [
    'throughput and limits are concrete (symbolic limits would make the terms non-linear)',
    'floating point rounding is outside the solver-decided claim (exact rationals); each '
    'validated path is additionally executed with the same numbers as Python floats and compared '
    'with the fluid model up to a relative 1e-6',
]

F = Fraction
# (pipe throughput, limits of the transfers; None = default limit = pipe throughput)
CONFIGS2 = [
    (F(2), (F(1), F(1))),          # never congested
    (F(2), (F(2), F(2))),          # congested when both are active: half each
    (F(3), (F(2), F(4))),          # unequal shares 1 : 2
    (F(1), (None, F(1, 2))),       # default limit
    (F(2), (F(4), F(1))),          # transfer 0 alone exceeds the pipe; transfer 1 may start later
    (F(2), (F(8), None)),          # ... followed by a default-limit transfer
    (F(2), (F(10 ** 17), F(3))),   # an own limit far above the pipe's throughput (allowed)
]
CONFIGS3 = [
    (F(2), (F(1), F(1), F(1))),
    (F(3), (F(3), F(2), F(1))),
    (F(2), (None, F(1), F(4))),
]


def fluid_model(E, theta, limits, starts, vols, removed):
    """finish instants of the transfers under processor sharing.
    removed: {index: instant at which the transfer is taken away (fault)}
    returns list of finish instants (None for a removed transfer)"""
    n = len(vols)
    pending = list(range(n))
    active = {}                     # i -> remaining volume
    finish = [None] * n
    t = 0
    gone = set()
    for _ in range(4 * n + 4):
        if not pending and not active:
            break
        total = sum(limits[i] for i in active)
        scale = min(F(1), theta / total) if active else F(1)
        rate = {i: limits[i] * scale for i in active}
        # candidate next instants
        cands = [starts[i] for i in pending]
        cands += [t + active[i] / rate[i] for i in active]
        cands += [removed[i] for i in removed if i not in gone and (i in active or i in pending)]
        nxt = cands[0]
        for c in cands[1:]:
            if c < nxt:
                nxt = c
        # advance
        for i in active:
            active[i] = active[i] - rate[i] * (nxt - t)
        t = nxt
        # finishes
        for i in list(active):
            if active[i] <= 0:
                finish[i] = t
                del active[i]
        # removals
        for i in removed:
            if i not in gone and removed[i] <= t:
                gone.add(i)
                active.pop(i, None)
                if i in pending:
                    pending.remove(i)
        # starts
        for i in list(pending):
            if starts[i] <= t:
                pending.remove(i)
                if vols[i] > 0:
                    active[i] = vols[i]
                else:
                    finish[i] = t
    return finish


def fam_pipe(E, configs, fault_kinds, pmax=1, unbounded=False, placements=True, infinite=False,
             scoped=False):
    n = len(configs[0][1])
    theta, limits = configs[E.pick('config', len(configs))]
    vols = [E.real('v%d' % i, 0, 60) for i in range(n)]
    starts = [E.const(0)] + [E.real('s%d' % i, 0, 30) for i in range(1, n)]
    fault = Fault(E, 'f', fault_kinds, hi=60, pmax=pmax, real=True, placements=placements)
    if infinite:
        # a regular Pipe whose throughput is infinite: never congested, the default limit is
        # infinite as well ("infinite-throughput transfers take no time")
        theta = INF
        pipe = Pipe(throughput=INF)
        unbounded = True            # same reference model as UnboundedPipe
    else:
        pipe = UnboundedPipe() if unbounded else Pipe(throughput=E.const(theta))
    log = Log()

    def transfer(i):
        async def run():
            await (time + starts[i]) if i else None
            log(i, 'start')
            if limits[i] is None:
                tr = pipe.transfer(vols[i])
            else:
                tr = pipe.transfer(vols[i], throughput=E.const(limits[i]))
            if scoped and i == 0:
                # the transfer is a child of a scope of the victim, which waits for it in the
                # exit of that scope: a fault on the victim must take the transfer off the pipe
                async with Scope() as inner:
                    inner.do(tr)
            else:
                await tr
            log(i, 'done')
        return run

    async def root():
        async with Scope() as top:
            for i in range(n):
                if i == 0 and fault.kind != Fault.NONE:
                    fault.spawn(top, transfer(i), log)
                else:
                    top.do(transfer(i)())

    out = simulate(root(), log=log)
    bad = classify_run_exception(out.exc, allowed=())
    E.prove(bad is None, 'run-ends-normally', bad)
    if out.exc is not None:
        return
    E.reach(Fault.NAMES[fault.kind])
    eff = [theta if l is None else l for l in limits]
    removed = {}
    f = log.first('f', 'fault')
    d0 = log.first(0, 'done')
    if f is not None and (d0 is None or log.pos(f) < log.pos(d0)):
        removed[0] = f[2]
        E.reach('fault-hits-running-transfer')
    if unbounded:
        model = [starts[i] if limits[i] is None else starts[i] + vols[i] / limits[i]
                 for i in range(n)]
        if 0 in removed:
            model[0] = None
    else:
        model = fluid_model(E, theta, eff, starts, vols, removed)
    for i in range(n):
        st, dn = log.first(i, 'start'), log.first(i, 'done')
        if i in removed:
            if dn is not None:
                # finished in the very time step of the fault
                E.prove(EQ(dn[2], removed[i]), 'removed-transfer-finishes-only-at-fault-instant')
            continue
        if not E.prove(st is not None and dn is not None, 'transfer-completes'):
            continue
        E.prove(EQ(st[2], starts[i]), 'starts-on-time')
        if model[i] is None:
            E.fail('model-has-no-finish', ('transfer %d', i))
            continue
        E.prove(EQ(dn[2], model[i]), 'finishes-at-fluid-model-time',
                ('transfer %d: volume %r from %r, limit %r on pipe %r: finished %r, model %r',
                 i, vols[i], starts[i], eff[i], theta, dn[2], model[i]))
        E.reach_if(EQ(vols[i], 0), 'zero-volume')
        # never faster than the own limit, never slower than the fair worst case
        E.prove(GE(dn[2] - starts[i], vols[i] / eff[i]) if not unbounded or limits[i] is not None
                else True, 'never-faster-than-own-limit')


    # IEEE doubles: the solver decides the exact-rational behaviour; in the concrete validation
    # run of the path (its model as plain numbers) the scenario is executed once more with the
    # same numbers as Python floats and must agree with the fluid model up to rounding
    if E.concrete and fault.kind == Fault.NONE and not unbounded:
        fpipe = Pipe(throughput=float(theta))
        flog = Log(note=False)

        def ftransfer(i):
            async def run():
                if i:
                    await (time + float(starts[i]))
                if limits[i] is None:
                    await fpipe.transfer(float(vols[i]))
                else:
                    await fpipe.transfer(float(vols[i]), throughput=float(limits[i]))
                flog(i, 'done')
            return run

        async def froot():
            async with Scope() as top:
                for i in range(n):
                    top.do(ftransfer(i)())

        fout = simulate(froot(), log=flog)
        E.prove(fout.exc is None, 'float-run-ends-normally', fout.exc)
        for i in range(n):
            dn = flog.first(i, 'done')
            if model[i] is None or dn is None:
                continue
            want = float(model[i])
            E.prove(abs(float(dn[2]) - want) <= 1e-6 * (1.0 + abs(want)),
                    'float-run-agrees-with-fluid-model-up-to-rounding',
                    ('transfer %d finished at %r with floats, fluid model %r', i, dn[2], want))


ALLF = [Fault.NONE, Fault.CANCEL, Fault.INTERRUPT, Fault.CLOSE]
FAMILIES = [
    Family('two', fam_pipe,
           quick=dict(configs=CONFIGS2, fault_kinds=ALLF, pmax=1),
           thorough=dict(configs=CONFIGS2, fault_kinds=ALLF, pmax=2),
           reach=['none', 'cancel', 'interrupt', 'close', 'fault-hits-running-transfer',
                  'zero-volume'],
           bounds='2 transfers, 7 configurations, attacker before / after the victim'),
    Family('scoped', fam_pipe,
           quick=dict(configs=CONFIGS2[1:3], fault_kinds=ALLF + [Fault.CLOSE_UNTIL], pmax=1,
                      scoped=True),
           thorough=dict(configs=CONFIGS2[1:4], fault_kinds=ALLF + [Fault.CLOSE_UNTIL,
                                                                    Fault.CANCEL_CLOSE],
                         pmax=2, scoped=True),
           reach=['none', 'cancel', 'interrupt', 'close', 'close by until',
                  'fault-hits-running-transfer'],
           bounds='transfer 0 runs as a child task of a scope opened by the victim, which waits '
                  'in the exit of that scope when the fault (cancel / interrupt / close / close '
                  'by an until-scope) strikes'),
    Family('three', fam_pipe,
           quick=dict(configs=CONFIGS3[:2], fault_kinds=[Fault.NONE]),
           thorough=dict(configs=CONFIGS3[:2], fault_kinds=[Fault.NONE, Fault.CANCEL],
                         placements=False, _max_wall=1500, _max_paths=900000),
           reach=['none'],
           bounds='3 transfers'),
    Family('infinite', fam_pipe,
           quick=dict(configs=[(None, (None, F(2))), (None, (F(1), F(3))), (None, (F(2), None))],
                      fault_kinds=[Fault.NONE, Fault.CANCEL], infinite=True),
           thorough=dict(configs=[(None, (None, F(2))), (None, (F(1), F(3))), (None, (F(2), None)),
                                  (None, (None, None))],
                         fault_kinds=ALLF, infinite=True, pmax=2),
           reach=['none', 'zero-volume'],
           bounds='regular Pipe(throughput=inf): default-limit transfers take no time, limited '
                  'ones v/l, whatever else is in flight'),
    Family('unbounded', fam_pipe,
           quick=dict(configs=[(F(1), (None, F(2)))], fault_kinds=[Fault.NONE, Fault.CANCEL],
                      unbounded=True),
           thorough=dict(configs=[(F(1), (None, F(2))), (F(1), (F(1, 2), F(3)))],
                         fault_kinds=ALLF, unbounded=True),
           reach=['none', 'zero-volume'],
           bounds='UnboundedPipe: default limit takes no time, explicit limit takes v/l'),
]
