"""
C02  The trace is a function of the program alone (deterministic FIFO turn order).

Programs: k activities, each a sequence of ops of the shared alphabet (sxv/ops.py) with fresh
symbolic arguments, their world drivers, optionally a canceller.  Per path:
 1. FIFO oracle of the probe: within a time step activations run in the order in which they
    were made runnable (schedule-call order), for the heap and the sorted-dict backend;
 2. backend equivalence: the same program is run on HQWaitQueue and on SDWaitQueue inside the
    one path; the observable traces must be equal (times by solver);
 3. repeated real executions: in the concrete validation run of the path the program is run
    several more times with unrelated allocations in between; all traces must be identical
    (address / memory-layout independence); a re-execution that does not follow the recorded
    decisions (engine status 'nondet') is confirmed the same way;
 4. assertion mode: the whole family is explored a second time under `python -O`; the two
    explorations must consist of the same paths (identified by their free decisions) with
    identical symbolic traces (done by the C02 driver in cli: see `post_check`).
"""
import gc
import json
import os
import subprocess
import sys

from usim import time, Scope, instant, eternity
from usim._core.waitq import HQWaitQueue, SDWaitQueue

from ..engine import EQ, GE, LE, LT, GT, AND, OR, NOT, SNum
from ..explore import Family
from ..kit import Log, simulate, now, classify_run_exception, UserErr, at_cp  # noqa
from ..ops import World, OPS, make_op
from ..probe import Probe

BOUNDS = ('k=2 activities x 1 op (quick) / k=2 x 2 ops, k=3 x 1 op (thorough) over the op alphabet, '
          'the leading date / delay of every op symbolic (secondary arguments concrete); optional cancel of activity 0 at (c,p); backends '
          '{heap, SD}; 4 repeated real executions with heap perturbation per validated path; '
          '-O differential over the same families')
ASSUMPTIONS = [
    'PYTHONHASHSEED only affects str/bytes hashing; usim hashes no strings on a scheduling path '
    '(regenerated AST scan in the evidence lists every set/frozenset/WeakSet/id()/hash() site)',
    'OS level effects other than container iteration order are outside the claim',
]


def build_and_run(E, chosen, params, cancel, waitqueue, note):
    """one execution of the program; returns (trace, outcome)"""
    log = Log(note=note)
    W = World(E, log, params=params, fixed=FIXED)
    acts = []
    for i, ops in enumerate(chosen):
        acts.append([make_op(W, name, 'a%d_%d' % (i, j)) for j, name in enumerate(ops)])
    tasks = []

    def activity(i):
        async def run():
            for fn, _ in acts[i]:
                await fn()
        return run

    async def canceller():
        c, p = cancel
        await at_cp(c, p)
        log('x', 'cancel')
        tasks[0].cancel()

    async def watcher(i):
        # volatile activities that live until the scope closes them: the order in which they
        # are closed is part of the observable trace
        try:
            await eternity
        finally:
            log('w%d' % i, 'closed')

    async def root():
        async with Scope() as top:
            for i in range(3):
                top.do(watcher(i), volatile=True)
            for i in range(len(acts)):
                for _, drivers in acts[i]:
                    for drv in drivers:
                        top.do(drv(), volatile=True)
            for i in range(len(acts)):
                tasks.append(top.do(activity(i)()))
            if cancel is not None:
                top.do(canceller())
            await (time + 60)

    probe = Probe(check_fifo=True)
    out = simulate(root(), log=log, probe=probe, waitqueue=waitqueue)
    return log.events, out


def same_trace(E, t1, t2, label):
    from ..engine import norm_note
    if not E.prove(len(t1) == len(t2) and all(a[:2] == b[:2] for a, b in zip(t1, t2)),
                   label, ('traces differ: %r  vs  %r', [e[:2] for e in t1], [e[:2] for e in t2])):
        return
    for a, b in zip(t1, t2):
        E.prove(EQ(a[2], b[2]), label, ('%r at %r vs %r', a[:2], a[2], b[2]))
        if not E.prove(len(a) == len(b), label, ('%r vs %r', a, b)):
            continue
        for x, y in zip(a[3:], b[3:]):
            if type(x) is SNum or type(y) is SNum:
                E.prove(EQ(x, y), label, ('%r vs %r', a, b))
            else:
                E.prove(norm_note(x) == norm_note(y), label, ('%r vs %r', a, b))


def fam_prog(E, names, k, nops, cancels=True, repeats=4):
    chosen = [[names[E.pick('op%d_%d' % (i, j), len(names))] for j in range(nops)]
              for i in range(k)]
    cancel = None
    if cancels and E.flag('cancel'):
        cancel = (E.int('c', 0, 25), E.pick('p', 2))
    params = {}
    t1, out1 = build_and_run(E, chosen, params, cancel, HQWaitQueue, note=True)
    # (whether run() may end with an exception at all is C03's business, not judged here)
    t2, out2 = build_and_run(E, chosen, params, cancel, SDWaitQueue, note=False)
    same_trace(E, t1, t2, 'same-trace-on-both-wait-queue-backends')
    E.prove(type(out1.exc) is type(out2.exc), 'same-outcome-on-both-wait-queue-backends')
    for ops in chosen:
        for name in ops:
            E.reach(name)
    if E.concrete:
        # real executions repeated with unrelated allocations in between: the trace must not
        # depend on object addresses / memory layout
        junk = []
        for r in range(repeats):
            junk.append([object() for _ in range(37 * (r + 1))])
            if r % 2:
                junk.pop(0)
            gc.collect(0)
            tr, outr = build_and_run(E, chosen, params, cancel, HQWaitQueue, note=False)
            same_trace(E, t1, tr, 'same-trace-when-repeated-with-other-memory-layout')


def fam_do(E, repeats=2):
    """scope.do(..., after=d / at=t) with d >= 0 and t >= now (zero / now included) next to
    activities taking turns: the start position of the tasks inside a time step is part of the
    trace (compared between backends, repeated runs and python / python -O)"""
    d = E.int('d', 0, 10)
    t = E.int('t', 0, 10)
    w = E.int('w', 0, 10)

    def run_once(waitqueue, note):
        log = Log(note=note)

        async def child(name):
            log(name, 'start')
            await instant
            log(name, 'second')

        async def root():
            await (time + w)
            E.assume(GE(t, now()), 'do(at=t) requires t >= now')
            async with Scope() as s:
                s.do(child('a'), after=d)
                s.do(child('b'), at=t)
                s.do(child('c'))
                log('r', 'spawned')
                await instant
                log('r', 'turn')

        async def bystander():
            for k in range(3):
                await (time + 5)
                log('y', 'tick', k)

        out = simulate(root(), bystander(), log=log, probe=Probe(check_fifo=True),
                       waitqueue=waitqueue)
        return log.events, out

    t1, out1 = run_once(HQWaitQueue, True)
    t2, out2 = run_once(SDWaitQueue, False)
    same_trace(E, t1, t2, 'same-trace-on-both-wait-queue-backends')
    E.prove(out1.exc is None and out2.exc is None, 'run-ends-normally', (out1.exc, out2.exc))
    if E.concrete:
        for r in range(repeats):
            tr, _ = run_once(HQWaitQueue, False)
            same_trace(E, t1, tr, 'same-trace-when-repeated-with-other-memory-layout')


def fam_float(E, repeats=2):
    """IEEE double dates (z3 floating point): a sleeper whose second delay may be absorbed by
    the current date (now + d == now), next to a bystander taking turns; the trace must be the
    same on both wait queue backends"""
    start = E.float('start', 0.0, 1e9)
    d1 = E.float('d1', 0.0, 100.0)
    d2 = E.float('d2', 0.0, 100.0)
    b = E.float('b', 0.0, 100.0)
    from ..engine import GT as _GT
    E.assume(_GT(d2, 0.0), 'positive delay')

    def run_once(waitqueue, note):
        log = Log(note=note)

        async def sleeper():
            await (time + d1)
            log('s', 'first')
            await (time + d2)
            log('s', 'second')
            await (time + d2)
            log('s', 'third')

        async def bystander():
            await (time + b)
            for k in range(3):
                log('b', 'turn', k)
                await instant

        out = simulate(sleeper(), bystander(), start=start, log=log,
                       probe=Probe(check_fifo=True, check_clock=False), waitqueue=waitqueue)
        return log.events, out

    t1, out1 = run_once(HQWaitQueue, True)
    t2, out2 = run_once(SDWaitQueue, False)
    same_trace(E, t1, t2, 'same-trace-on-both-wait-queue-backends')
    E.prove(out1.exc is None and out2.exc is None, 'run-ends-normally', (out1.exc, out2.exc))
    sec = [e for e in t1 if e[:2] == ('s', 'second')]
    fst = [e for e in t1 if e[:2] == ('s', 'first')]
    if sec and fst:
        E.reach_if(EQ(sec[0][2], fst[0][2]), 'delay-absorbed-by-the-date')
    if E.concrete:
        for r in range(repeats):
            tr, _ = run_once(HQWaitQueue, False)
            same_trace(E, t1, tr, 'same-trace-when-repeated-with-other-memory-layout')


# ---- assertion mode differential (python vs python -O): run by cli after the exploration
def post_check(pid, tier, reports, seed):
    """explores the same families under `python -O` in a subprocess and compares, path by path
    (paths identified by their free decisions), the symbolic traces"""
    here = os.path.dirname(os.path.dirname(os.path.dirname(os.path.abspath(__file__))))
    out = os.path.join(here, '.scratch', 'c02-O-%s.json' % tier)
    os.makedirs(os.path.dirname(out), exist_ok=True)
    # only families that were explored exhaustively can be compared path by path
    fams = [r['family'] for r in reports if r.get('digests') and r.get('exhaustive') and
            (r['family'] in (QUICK_O_FAMILIES if tier == 'quick' else THOROUGH_O_FAMILIES))]
    if not fams:
        return {'families': 0}, []
    # second configuration: assertions off AND another string-hash seed (the first exploration
    # runs with PYTHONHASHSEED=0 unless the caller chose one, see run.sh)
    env = dict(os.environ)
    env['PYTHONHASHSEED'] = '4242' if env.get('PYTHONHASHSEED', '0') != '4242' else '17'
    cmd = [sys.executable, '-O', '-m', 'sxv.cli', 'digests', pid, tier, out] + fams
    r = subprocess.run(cmd, cwd=here, env=env, capture_output=True, text=True)
    problems = []
    info = {'families': len(fams), 'paths_compared': 0, 'cmd': ' '.join(cmd[1:]),
            'configuration_A': 'python, PYTHONHASHSEED=%s' % os.environ.get('PYTHONHASHSEED', '0'),
            'configuration_B': 'python -O, PYTHONHASHSEED=%s' % env['PYTHONHASHSEED']}
    if r.returncode == 3:
        info['note'] = 'the -O exploration was not exhaustive within its budget: not compared'
        return info, problems
    if r.returncode != 0 or not os.path.exists(out):
        problems.append(('error', '-O exploration failed: %s' % (r.stdout + r.stderr)[-600:]))
        return info, problems
    other = json.load(open(out))
    os.remove(out)
    for rep in reports:
        fam = rep['family']
        if fam not in other:
            continue
        mine, theirs = rep['digests'], other[fam]
        for key, dg in mine.items():
            if key not in theirs:
                problems.append(('violation', '%s: a path of the normal exploration has no '
                                 'counterpart under -O (free decisions differ)' % fam))
                break
            info['paths_compared'] += 1
            if sorted(dg) != sorted(theirs[key]):
                problems.append(('violation', '%s: same path, different trace under -O' % fam))
                break
        for key in theirs:
            if key not in mine:
                problems.append(('violation', '%s: a path under -O has no counterpart in the '
                                 'normal exploration' % fam))
                break
    return info, problems


SMALL = ['sleep', 'moment', 'after', 'instant', 'flag.set', 'await flag', 'tracked.set',
         'await tracked>=x', 'lock', 'queue.put', 'await queue', 'for channel', 'borrow',
         'claim', 'pipe.transfer', 'interval', 'first', 'scope', 'until', 'until true']
# secondary op arguments kept concrete in C02 programs (C03 keeps all of them symbolic)
FIXED = {'h': 2, 'r': 3, 'u': 4, 'x': 1, 'v': 2, 'a': 1, 'b': 1, 'p': 2, 'd2': 3}
TINY = ['sleep', 'after', 'await flag', 'await tracked>=x', 'lock', 'await queue', 'borrow',
        'first', 'until']
WANT_DIGEST = True
QUICK_O_FAMILIES = ['pair_cancel', 'do_dates']     # quick tier: -O differential on this family only
THOROUGH_O_FAMILIES = ['pair', 'trio', 'six_sleepers', 'do_dates']
FAMILIES = [
    Family('pair', fam_prog,
           quick=dict(names=TINY, k=2, nops=1, cancels=False, _validate_every=3),
           thorough=dict(names=SMALL, k=2, nops=1, _validate_every=7, _max_wall=2400),
           reach=TINY, nonrepro='inconclusive', bounds='2 activities x 1 op (quick: 9 ops, thorough: 20 ops + cancel)'),
    Family('six_sleepers', fam_prog,
           quick=dict(names=['sleep'], k=6, nops=1, cancels=False, _validate_every=5),
           thorough=dict(names=['sleep'], k=7, nops=1, cancels=False, _validate_every=23),
           nonrepro='inconclusive',
           bounds='6 (thorough 7) sleepers with free delays: every shape of the wait queue, on '
                  'both backends'),
    Family('do_dates', fam_do,
           quick=dict(), thorough=dict(),
           nonrepro='inconclusive',
           bounds='scope.do(after=d), do(at=t), do() with d, t, entry date in [0,10] (zero and '
                  '"now" included); compared between backends and between python and python -O'),
    Family('float_absorb', fam_float,
           quick=dict(),
           thorough=dict(_max_wall=1200),
           reach=['delay-absorbed-by-the-date'],
           nonrepro='inconclusive',
           bounds='IEEE double dates: start in [0,1e9], delays in (0,100]; sleeper with a delay '
                  'that may be absorbed by the date, bystander; heap vs SortedDict backend'),
    Family('pair_cancel', fam_prog,
           quick=dict(names=['sleep', 'lock', 'await queue', 'borrow'], k=2, nops=1, cancels=True,
                      _validate_every=3),
           nonrepro='inconclusive', bounds='2 activities x 1 op, activity 0 cancelled at (c,p)'),
    Family('pair2', fam_prog,
           thorough=dict(names=['sleep', 'await flag', 'lock', 'await queue'],
                         k=2, nops=2, cancels=False, _validate_every=11, _max_wall=1200),
           nonrepro='inconclusive', bounds='2 activities x 2 ops'),
    Family('trio', fam_prog,
           quick=dict(names=['sleep', 'lock', 'await tracked>=x'],
                      k=3, nops=1, cancels=False, _validate_every=3),
           thorough=dict(names=['sleep', 'lock', 'await flag', 'borrow', 'await queue',
                                'await tracked>=x'],
                         k=3, nops=1, cancels=False, _validate_every=11, _max_wall=900),
           nonrepro='inconclusive', bounds='3 activities x 1 op'),
]


def fam_phases(E, repeats=2):
    """one activity using the same primitives in successive phases (state left behind by an
    earlier phase): a Tracked value first watched by an until-scope that is left untriggered and
    by a waiter that is cancelled, later awaited through comparisons with free operands (equal
    operands = a path); a regular Pipe used for three successive transfers and a cancelled one.
    Differentials: heap vs SortedDict backend, python vs python -O (digests), and in the concrete
    validation run: repeated executions, one with a full garbage collection before every
    activation, one with the collector off - reclaiming dead objects earlier or later is an
    'unrelated allocation' effect the trace must not depend on."""
    from usim import Tracked, Pipe, until
    from fractions import Fraction
    x0 = E.int('x0', 1, 3)
    x1 = E.int('x1', 1, 3)
    x2 = E.int('x2', 1, 3)
    x3 = E.int('x3', 1, 3)
    w = E.int('w', 0, 3)
    val = E.int('val', 0, 3)

    def run_once(waitqueue, note, gc_mode=None, pad=0):
        log = Log(note=note)
        one, two = E.const(Fraction(1)), E.const(Fraction(2))
        tr = Tracked(E.const(0))
        other = Tracked(E.const(0))
        pipe = Pipe(throughput=two)

        async def waiter(name, x):
            try:
                await (tr >= x)
                log(name, 'woke')
            finally:
                log(name, 'left')

        async def twice(name):
            # two comparisons in a row: the first one holds already and is dead once the wait is
            # over; `pad` unrelated objects of the same kind are allocated before the second one
            # is made (whether it re-uses the address of the dead one must not matter)
            try:
                await (tr >= E.const(0))
                keep = [(other >= E.const(1)) for _ in range(pad)]
                await (tr >= x2)
                log(name, 'woke')
                del keep
            finally:
                log(name, 'left')

        async def guard():
            async with until(tr >= x0):
                await pipe.transfer(two, throughput=one)

        async def mover(name):
            await pipe.transfer(two, throughput=one)
            log(name, 'moved')

        async def root():
            # phase 1: watchers that never fire (the guard is an activity of its own: once it
            # has ended, its until-scope is garbage - a reference cycle - that may or may not
            # have been reclaimed when phase 2 builds an equal comparison)
            async with Scope() as s:
                s.do(guard())
            log('r', 'phase1')
            async with Scope() as s:
                lost = s.do(waiter('L', x3))
                gone = s.do(mover('G'))
                await instant
                lost.cancel()
                gone.cancel()
            log('r', 'phase2')
            # phase 2: fresh waiters on comparisons that may equal the old ones
            async with Scope() as s:
                s.do(twice('X'))
                s.do(waiter('A', x1))
                s.do(waiter('B', x2))
                s.do(waiter('C', x3))
                s.do(mover('M'))
                await (time + w)
                await tr.set(val)
                log('r', 'set')
                await (time + 1)
                await tr.set(E.const(3))
                log('r', 'set3')
            # phase 3: the pipe again
            await pipe.transfer(two, throughput=one)
            log('r', 'phase3')
            await pipe.transfer(two)
            log('r', 'phase4')

        async def bystander():
            for k in range(4):
                await (time + 2)
                log('y', 'tick', k)

        # the probe of the garbage differential keeps no reference to signals or coroutines
        probe = Probe(check_fifo=True, light=gc_mode is not None)
        if gc_mode == 'eager':
            probe.hooks.append(lambda *a: gc.collect())
        out = simulate(root(), bystander(), log=log, probe=probe, waitqueue=waitqueue)
        return log.events, out

    t1, out1 = run_once(HQWaitQueue, True)
    t2, out2 = run_once(SDWaitQueue, False)
    same_trace(E, t1, t2, 'same-trace-on-both-wait-queue-backends')
    E.prove(out1.exc is None and out2.exc is None, 'run-ends-normally', (out1.exc, out2.exc))
    E.reach_if(AND(EQ(x0, x2), NOT(EQ(x1, x2))), 'later-comparison-equals-one-of-an-abandoned-scope')
    E.reach_if(AND(EQ(x3, x2), NOT(EQ(x1, x2))), 'later-comparison-equals-one-of-a-cancelled-waiter')
    if E.concrete:
        for r in range(repeats):
            tr_, _ = run_once(HQWaitQueue, False, gc_mode='eager')
            same_trace(E, t1, tr_, 'same-trace-when-garbage-is-collected-at-every-step')
            tr_, _ = run_once(HQWaitQueue, False, gc_mode='lazy', pad=r + 1)
            same_trace(E, t1, tr_, 'same-trace-when-repeated-with-other-memory-layout')


FAMILIES.append(
    Family('phases', fam_phases,
           quick=dict(repeats=1), thorough=dict(repeats=3),
           reach=['later-comparison-equals-one-of-an-abandoned-scope',
                  'later-comparison-equals-one-of-a-cancelled-waiter'],
           nonrepro='inconclusive',
           bounds='one activity re-using a Tracked value (until-scope left untriggered, cancelled '
                  'waiter, then three waiters on comparisons with free operands in [1,3]) and a '
                  'regular Pipe (five successive / cancelled transfers); backends, python -O, '
                  'repeated executions with and without a garbage collection before every activation'))
QUICK_O_FAMILIES.append('phases')
THOROUGH_O_FAMILIES.append('phases')


def fam_huge(E, repeats=2, k=3):
    """integer dates beyond 2**53 (e.g. nanosecond time stamps): delays in [0,300] on top of
    start = 2**60, where neighbouring doubles are 256 apart.  A backend that orders dates by
    anything but their exact value (float(date) is decided cell by cell by the solver, see
    engine SNum.__float__) gives a different trace than the heap"""
    start = 2 ** 60
    d = [E.int('d%d' % i, 0, 300) for i in range(k)]

    def run_once(waitqueue, note):
        log = Log(note=note)

        def sleeper(i):
            async def run():
                await (time + d[i])
                log('s%d' % i, 'woke')
                await (time + d[(i + 1) % k])
                log('s%d' % i, 'again')
            return run

        out = simulate(*[sleeper(i)() for i in range(k)], start=start, log=log,
                       probe=Probe(check_fifo=True), waitqueue=waitqueue)
        return log.events, out

    t1, out1 = run_once(HQWaitQueue, True)
    t2, out2 = run_once(SDWaitQueue, False)
    same_trace(E, t1, t2, 'same-trace-on-both-wait-queue-backends')
    E.prove(out1.exc is None and out2.exc is None, 'run-ends-normally', (out1.exc, out2.exc))
    E.reach_if(AND(GT(d[0], d[1]), LT(d[0] - d[1], 100)), 'distinct-dates-closer-than-a-double')
    if E.concrete:
        for r in range(repeats):
            tr_, _ = run_once(HQWaitQueue, False)
            same_trace(E, t1, tr_, 'same-trace-when-repeated-with-other-memory-layout')


FAMILIES.append(
    Family('huge_dates', fam_huge, quick=dict(), thorough=dict(k=4),
           reach=['distinct-dates-closer-than-a-double'], nonrepro='inconclusive',
           bounds='3 (thorough 4) sleepers x 2 delays in [0,300] from start = 2**60 (integer '
                  'dates that doubles cannot tell apart), heap vs SortedDict backend'))
QUICK_O_FAMILIES.append('huge_dates')
THOROUGH_O_FAMILIES.append('huge_dates')


def fam_after_abort(E):
    """the same program is run before and after an *unrelated* simulation that is aborted by an
    exception while waits on dates are still pending (and after one that ends normally): nothing a
    finished or aborted simulation leaves behind in the thread may influence the next one.  The
    dates of the unrelated simulation are free, so they may coincide with those of the program"""
    d = [E.int('d%d' % i, 0, 12) for i in range(2)]
    x = E.int('x', 0, 12)
    f = E.int('f', 0, 12)
    kind = E.pick('kind', 3)      # what the unrelated simulation waits for

    def program(note):
        log = Log(note=note)

        def waiter(i):
            async def run():
                await (time >= d[i])
                log('w%d' % i, 'after')
                await (time == d[i] + 3)
                log('w%d' % i, 'moment')
                await (time + d[1 - i])
                log('w%d' % i, 'delay')
            return run

        out = simulate(waiter(0)(), waiter(1)(), log=log, probe=Probe(check_fifo=True))
        return log.events, out

    def unrelated(fails):
        async def pending():
            await ((time >= x) if kind == 0 else ((time == x) if kind == 1 else (time + x)))
            await (time + 1)

        async def failing():
            await (time + f)
            if fails:
                raise UserErr('unrelated simulation aborted')

        return simulate(pending(), failing(), log=Log(note=False))

    t1, out1 = program(True)
    E.prove(out1.exc is None, 'run-ends-normally', out1.exc)
    o = unrelated(False)
    E.prove(o.exc is None, 'run-ends-normally', o.exc)
    t2, out2 = program(False)
    same_trace(E, t1, t2, 'same-trace-after-an-unrelated-simulation')
    o = unrelated(True)
    E.prove(isinstance(o.exc, UserErr), 'unrelated-simulation-ends-with-its-own-exception', o.exc)
    E.reach_if(AND(LT(f, x), OR(EQ(x, d[0]), EQ(x, d[1]))),
               'aborted-with-a-pending-wait-on-a-date-of-the-program')
    t3, out3 = program(False)
    same_trace(E, t1, t3, 'same-trace-after-an-unrelated-aborted-simulation')
    E.prove(out3.exc is None, 'run-ends-normally', out3.exc)


FAMILIES.append(
    Family('after_abort', fam_after_abort, quick=dict(), thorough=dict(),
           reach=['aborted-with-a-pending-wait-on-a-date-of-the-program'], nonrepro='inconclusive',
           bounds='two waiters (time >= d, time == d + 3, delay) run three times in one thread, '
                  'with an unrelated simulation in between that ends normally / is aborted at f '
                  'while waiting for time >= x, time == x or time + x; all dates in [0,12]'))
