"""
C14  interval() ticks on a fixed grid, delay() pauses a fixed span, for any body.

Period p and the body durations b_1..b_n are symbolic (0 included, p < 0 in a separate family);
start time symbolic; a spinner activity runs next to the ticker; optionally a second ticker and
an enclosing until().
"""
from usim import time, Scope, until, instant, interval, delay, IntervalExceeded

from ..engine import EQ, GE, LE, LT, GT, AND, OR, NOT, IMPLIES, MAX, MIN
from ..explore import Family
from ..kit import Log, simulate, now, classify_run_exception, STATE

BOUNDS = ('period p in [0,20] (negative: [-5,-1] in the reject family), body durations in [0,40], '
          'start in [-10,10] (families interval / delay: [-10^12, 10^12]), 3 (thorough 4) iterations; spinner with 3 turns per tick instant; '
          'second ticker with its own period; enclosing until(time == u)')
ASSUMPTIONS = []


def fam_tick(E, mode, n, real=False, second=False, enclosing=False, far=False, pre=False):
    start = E.num('start', -10**12 if far else -10, 10**12 if far else 10, real=real)
    p = E.num('p', 0, 20, real=real)
    b = [E.num('b%d' % j, 0, 40, real=real) for j in range(n)]
    p2 = E.num('p2', 0, 20, real=real) if second else None
    u = E.num('u', -10, 80, real=real) if enclosing else None
    # pre: the ticker object is created g before its iteration starts (handed to a delayed
    # consumer); the grid / the pauses count from the start of the iteration
    g = E.num('g', 0, 25, real=real) if pre else None
    log = Log()
    S = {}
    maker = interval if mode == 'interval' else delay

    async def ticker():
        log('T', 'begin')
        j = 0
        try:
            ticks_ = maker(p)
            if pre:
                await (time + g)
            async for value in ticks_:
                log('T', 'tick', j, value)
                if j == n:
                    break
                await (time + b[j])
                log('T', 'body-end', j)
                # another activity that is runnable from this instant on
                S['top'].do(spinner(), volatile=True)
                j += 1
        except IntervalExceeded:
            log('T', 'exceeded', j)
        log('T', 'stop')

    async def ticker2():
        k = 0
        async for value in maker(p2):
            log('T2', 'tick', k, value)
            k += 1
            if k == 3:
                break

    async def spinner():
        for _ in range(4):
            log('S', 'turn')
            await instant

    async def guarded():
        async with until(time == u):
            await ticker()
        log('T', 'left-until')

    async def root():
        async with Scope() as top:
            S['top'] = top
            top.do(guarded() if enclosing else ticker())
            if second:
                top.do(ticker2())

    out = simulate(root(), start=start, log=log)
    bad = classify_run_exception(out.exc, allowed=())
    E.prove(bad is None, 'run-ends-normally', bad)
    if out.exc is not None:
        return
    t_run = start             # for the second ticker, which starts with the run
    if pre:
        start = start + g     # the first ticker starts iterating g later
    ticks = log.of('T', 'tick')
    ends = log.of('T', 'body-end')
    exc = log.first('T', 'exceeded')
    cut = None
    if enclosing:
        cut = u if GE(u, start) else None          # until(time == past) never fires
    # expected grid
    expect = start
    prev_end = start
    alive = True
    for j in range(n + 1):
        if mode == 'interval':
            expect = start + (j + 1) * p
            on_time = True if j == 0 else LE(b[j - 1], p)
            if not on_time:
                # the body over-ran the period: IntervalExceeded exactly now, no more ticks
                E.reach('exceeded')
                if cut is not None and LE(cut, prev_end):
                    alive = False       # cut by the until-scope at or before the over-run
                    break
                E.prove(exc is not None and exc[3] == j and EQ(exc[2], prev_end),
                        'IntervalExceeded-exactly-when-body-overran',
                        ('iteration %d: body ended %r, grid %r, exceeded %r', j, prev_end, expect, exc))
                E.prove(len(ticks) == j, 'no-tick-after-exceeded')
                alive = False
                break
        else:
            expect = prev_end + p
        if cut is not None and LE(cut, expect):
            # the enclosing until() ends the ticker first (or in the same step: either order)
            E.reach('cut-by-until')
            E.prove(len(ticks) <= j + (1 if EQ(cut, expect) else 0), 'no-tick-after-until')
            alive = False
            break
        if not E.prove(len(ticks) > j, 'tick-happens', ('tick %d expected at %r', j, expect)):
            return
        tk = ticks[j]
        E.prove(EQ(tk[2], expect), 'tick-on-grid',
                ('%s(%r) from %r: tick %d at %r, expected %r', mode, p, start, j, tk[2], expect))
        E.prove(EQ(tk[4], tk[2]), 'yields-current-time', ('yielded %r at %r', tk[4], tk[2]))
        if j < n:
            prev_end = expect + b[j]
        E.reach_if(EQ(p, 0), 'zero-period')
    if alive:
        E.prove(exc is None, 'no-spurious-IntervalExceeded', ('%r', exc))
        E.prove(len(ticks) == n + 1, 'tick-count')
    # other activities run between consecutive iterations, also for p == 0 and b == 0
    for a in ends:
        nxt = [t for t in ticks if t[3] == a[3] + 1]
        if not nxt:
            continue
        c = nxt[0]
        between = log.events[log.pos(a) + 1:log.pos(c)]
        # if the clock did not advance between two iterations, the runnable spinner had a turn
        E.reach_if(EQ(a[2], c[2]), 'iterations-in-one-time-step')
        E.prove(OR(NOT(EQ(a[2], c[2])), any(ev[0] == 'S' for ev in between)),
                'others-run-between-iterations',
                ('no turn of the runnable spinner between the body end at %r and the tick at %r',
                 a[2], c[2]))
    if second:
        t2 = log.of('T2', 'tick')
        for k, tk in enumerate(t2):
            want = t_run + (k + 1) * p2
            E.prove(EQ(tk[2], want) and EQ(tk[4], want), 'second-ticker-on-its-own-grid')
        E.prove(len(t2) == 3, 'second-ticker-complete')


def fam_reject(E, mode):
    p = E.int('p', -5, -1)
    log = Log()
    maker = interval if mode == 'interval' else delay

    async def ticker():
        try:
            async for value in maker(p):
                log('T', 'tick')
                break
        except ValueError:
            log('T', 'rejected')

    out = simulate(ticker(), log=log)
    E.prove(out.exc is None, 'run-ends-normally', out.exc)
    E.prove(log.has('T', 'rejected') and not log.has('T', 'tick'), 'negative-period-rejected')


FAMILIES = [
    Family('interval', fam_tick, quick=dict(mode='interval', n=3, far=True),
           thorough=dict(mode='interval', n=4, far=True),
           reach=['exceeded', 'zero-period', 'iterations-in-one-time-step'],
           bounds='interval(p), 3 (thorough 4) bodies'),
    Family('delay', fam_tick, quick=dict(mode='delay', n=3, far=True), thorough=dict(mode='delay', n=4, far=True),
           reach=['zero-period', 'iterations-in-one-time-step'], bounds='delay(p)'),
    Family('interval_until', fam_tick, quick=dict(mode='interval', n=2, enclosing=True),
           thorough=dict(mode='interval', n=3, enclosing=True),
           reach=['cut-by-until', 'exceeded'], bounds='interval(p) inside until(time == u)'),
    Family('delay_until', fam_tick, thorough=dict(mode='delay', n=3, enclosing=True),
           bounds='delay(p) inside until(time == u)'),
    Family('interval_pre', fam_tick, quick=dict(mode='interval', n=2, pre=True),
           thorough=dict(mode='interval', n=3, pre=True),
           reach=['exceeded'],
           bounds='the interval(p) object is created g in [0,25] before its iteration starts'),
    Family('delay_pre', fam_tick, quick=dict(mode='delay', n=2, pre=True),
           bounds='the delay(p) object is created g in [0,25] before its iteration starts'),
    Family('two_tickers', fam_tick, quick=dict(mode='interval', n=2, second=True),
           thorough=dict(mode='interval', n=3, second=True),
           bounds='two tickers with independent periods'),
    Family('interval_real', fam_tick, quick=dict(mode='interval', n=2, real=True),
           thorough=dict(mode='interval', n=3, real=True, far=True),
           bounds='exact rational period and durations'),
    Family('reject_interval', fam_reject, quick=dict(mode='interval'), thorough=dict(mode='interval'),
           bounds='interval(p), p in [-5,-1]'),
    Family('reject_delay', fam_reject, quick=dict(mode='delay'), thorough=dict(mode='delay'),
           bounds='delay(p), p in [-5,-1]'),
]


def fam_successive(E, n=3, real=False):
    """one activity runs a first ticker inside `until(time == u)` (cut while it pauses between
    two steps, or while a body runs), and right afterwards a second ticker: what the aborted
    first one left behind (queued wake-ups, signals) must not move the second one off its grid"""
    from usim import until
    m1 = E.pick('mode1', 2)
    m2 = E.pick('mode2', 2)
    p1 = E.num('p1', 1, 10, real=real)
    p2 = E.num('p2', 0, 10, real=real)
    u = E.num('u', 0, 30, real=real)
    b1 = E.num('b1', 0, 10, real=real)
    b2 = [E.num('b2_%d' % j, 0, 5, real=real) for j in range(n)]
    E.assume(LE(b1, p1), 'bodies of the first ticker fit their period')
    log = Log()

    async def main():
        async with until(time == u):
            async for _ in (interval(p1) if m1 == 0 else delay(p1)):
                log('t1', 'tick')
                await (time + b1)
                log('t1', 'body-end')
        log('m', 'between')
        j = 0
        try:
            async for t in (interval(p2) if m2 == 0 else delay(p2)):
                log('t2', 'tick', j, t)
                if j == n - 1:
                    break
                await (time + b2[j])
                log('t2', 'body-end', j)
                j += 1
        except IntervalExceeded:
            log('t2', 'exceeded', j)

    out = simulate(main(), log=log)
    bad = classify_run_exception(out.exc, allowed=())
    E.prove(bad is None, 'run-ends-normally', bad)
    if out.exc is not None:
        return
    bt = log.first('m', 'between')
    if not E.prove(bt is not None and EQ(bt[2], u), 'first-ticker-cut-at-its-deadline'):
        return
    ticks1 = log.of('t1', 'tick')
    ends1 = log.of('t1', 'body-end')
    if ticks1 and len(ends1) == len(ticks1):
        E.reach('first-ticker-cut-while-pausing')
    start2 = u
    prev_end = start2
    for j, tk in enumerate(log.of('t2', 'tick')):
        if m2 == 0:
            want = start2 + (j + 1) * p2
        else:
            want = prev_end + p2
        E.prove(EQ(tk[2], want), 'second-ticker-on-its-grid',
                ('%s(%r) started at %r after an aborted %s(%r): tick %d at %r, expected %r',
                 'interval' if m2 == 0 else 'delay', p2, start2,
                 'interval' if m1 == 0 else 'delay', p1, j, tk[2], want))
        E.prove(EQ(tk[4], tk[2]), 'yielded-time-is-the-tick-time')
        be = [x for x in log.of('t2', 'body-end') if x[3] == j]
        if be:
            prev_end = be[0][2]
    ex = log.first('t2', 'exceeded')
    if ex is None:
        E.prove(len(log.of('t2', 'tick')) == n, 'second-ticker-completes')
    else:
        # only legitimate for interval with a body longer than the period
        j = ex[3]
        E.prove(m2 == 0 and j >= 1 and GT(b2[j - 1], p2), 'IntervalExceeded-only-when-exceeded')


FAMILIES.append(
    Family('successive', fam_successive, quick=dict(n=2), thorough=dict(n=3),
           reach=['first-ticker-cut-while-pausing'],
           bounds='interval / delay (period in [1,10]) cut by until(time == u), u in [0,30], then '
                  'interval / delay (period in [0,10]) for 2 (thorough 3) ticks in the same activity'))
