"""
C19  SimPy resources keep capacity, conserve content, serve requests in policy order.

Histories of up to 4 operations issued by up to 4 processes at symbolic dates with symbolic
amounts / priorities / capacities against Container, Store, PriorityStore, FilterStore,
Resource, PriorityResource and PreemptiveResource.  Oracle: a sequential reference model per
resource type, stepped through the requests in the order in which the processes issued them
(taken from their own log); it yields for every request the instant at which it must be
granted (or that it stays pending) and the value it must receive.
"""
from usim import time
from usim.py import Environment
from usim.py.exceptions import Interrupt
from usim.py.resources.container import Container
from usim.py.resources.store import Store, PriorityStore, FilterStore, PriorityItem
from usim.py.resources.resource import Resource, PriorityResource, PreemptiveResource, Preempted

from ..engine import EQ, NE, GE, LE, LT, GT, AND, OR, NOT, IMPLIES, SNum
from ..explore import Family
from ..kit import Log, simulate, classify_run_exception

BOUNDS = ('3 (thorough 4) processes, one operation each (resources: request, hold, release) at '
          'symbolic dates in [0,10]; Container: capacity in [1,10], init in [0,cap], amounts in '
          '[1,10]; stores: capacity in {1,2,inf}, priorities in [0,5], filters `item == j`; '
          'resources: capacity in {1,2}, priorities in [0,3], holds in [1,10], optional cancel of '
          'a pending request after a symbolic patience')
ASSUMPTIONS = ['documented preconditions: amounts > 0, capacity > 0, init <= capacity',
               'the order in which processes issue requests inside one time step is taken from '
               'their log (C02 covers that it is deterministic)']


import contextlib

from usim.py.events import Event


@contextlib.contextmanager
def grant_monitor(log, registry):
    """call-through monitor: logs the exact moment a registered request event is granted"""
    orig = Event.succeed

    def succeed(self, value=None):
        rid = registry.get(id(self))
        if rid is not None and rid[1] is self:
            log(rid[0], 'grant', value)
        return orig(self, value)
    Event.succeed = succeed
    try:
        yield
    finally:
        Event.succeed = orig


def run_env(E, env, log, registry):
    with grant_monitor(log, registry):
        out = simulate(env.until(), log=log)
    bad = classify_run_exception(out.exc, allowed=())
    E.prove(bad is None, 'run-ends-normally', bad)
    return out.exc is None


def replay_model(E, log, model):
    """steps the reference model through the log: requests / releases change the queues, every
    grant must be legal in the state it happens in, and at the end of every time step (and of the
    run) no request that the policy would serve next is grantable"""
    prev_t = None
    for pos, ev in enumerate(log.events):
        who, what, t = ev[0], ev[1], ev[2]
        model.future = log.events[pos + 1:]
        if prev_t is not None and prev_t is not t and not (E.concrete and prev_t == t):
            model.end_of_step(prev_t)
        prev_t = t
        if what == 'request':
            model.request(who, t)
        elif what == 'grant':
            model.grant(who, t, ev[3])
        elif what in ('release', 'gave-up', 'preempted'):
            getattr(model, what.replace('-', '_'))(who, t)
    model.end_of_step(prev_t)


# ----------------------------------------------------------------------------- Container
def fam_container(E, n, cancels=False):
    patience = E.int('patience', 0, 10) if cancels else None      # process 0 gives up waiting
    cap = E.int('cap', 1, 10)
    init = E.int('init', 0, 10)
    E.assume(LE(init, cap))
    kinds = [E.pick('kind%d' % i, 2) for i in range(n)]          # 0 put, 1 get
    amt = [E.int('m%d' % i, 1, 10) for i in range(n)]
    at = [E.int('a%d' % i, 0, 10) for i in range(n)]
    log = Log()
    env = Environment()
    box = Container(env, capacity=cap, init=init)
    registry = {}

    def proc(i):
        yield env.timeout(at[i])
        log(i, 'request')
        req = box.put(amt[i]) if kinds[i] == 0 else box.get(amt[i])
        registry[id(req)] = (i, req)      # keeps req alive: no id reuse
        if req.triggered:
            log(i, 'grant', None)          # granted inside the constructor, before registration
        if cancels and i == 0:
            yield req | env.timeout(patience)
            if not req.triggered:
                log(i, 'gave-up')
                req.cancel()
                return
        else:
            yield req
        log(i, 'resumed')
        E.prove(AND(GE(box.level, 0), LE(box.level, cap)), 'level-within-bounds',
                ('level %r, capacity %r', box.level, cap))

    class Model:
        def __init__(self):
            self.level = init
            self.q = {0: [], 1: []}
            self.granted = []
            # a queue is 'stale' after a cancellation until something re-evaluates it: a new
            # request of its own kind or a completed operation of the other kind
            self.stale = {0: False, 1: False}

        def request(self, i, t):
            self.q[kinds[i]].append(i)
            self.stale[kinds[i]] = False

        def gave_up(self, i, t):
            # a cancellation is not a trigger: what it unblocks is served with the next
            # request or completed operation (as in SimPy)
            if i in self.q[kinds[i]]:
                self.q[kinds[i]].remove(i)
            self.stale[kinds[i]] = True

        def fits(self, i):
            return GE(cap - self.level, amt[i]) if kinds[i] == 0 else GE(self.level, amt[i])

        def grant(self, i, t, value):
            q = self.q[kinds[i]]
            if not E.prove(bool(q) and q[0] == i, 'granted-in-request-order',
                           ('request %r granted while %r are queued before it', i, q)):
                return
            E.prove(self.fits(i), 'grant-respects-level-and-capacity',
                    ('request %r amount %r granted at level %r capacity %r',
                     i, amt[i], self.level, cap))
            q.pop(0)
            self.level = self.level + amt[i] if kinds[i] == 0 else self.level - amt[i]
            self.granted.append(i)
            self.stale[1 - kinds[i]] = False

        def end_of_step(self, t):
            for k in (0, 1):
                if self.q[k] and not self.stale[k]:
                    E.prove(NOT(self.fits(self.q[k][0])),
                            'grantable-head-request-is-granted-within-the-time-step',
                            ('request %r (amount %r) still pending after time step %r at level %r',
                             self.q[k][0], amt[self.q[k][0]], t, self.level))

    for i in range(n):
        env.process(proc(i))
    if not run_env(E, env, log, registry):
        return
    model = Model()
    replay_model(E, log, model)
    E.prove(EQ(box.level, model.level), 'level-equals-init-plus-puts-minus-gets',
            ('level %r, model %r', box.level, model.level))
    E.prove(AND(GE(box.level, 0), LE(box.level, cap)), 'level-within-bounds')
    for i in model.granted:
        E.prove(log.has(i, 'resumed') or (cancels and i == 0), 'granted-process-resumes')
    if log.has(0, 'gave-up'):
        E.reach('gave-up')
    if model.q[0] or model.q[1]:
        E.reach('pending-at-end')
    if len(model.granted) > 1:
        E.reach('several-grants')


# ----------------------------------------------------------------------------- Stores
CAPS = [1, 2, float('inf')]
PLAIN, PRIORITY, FILTER = range(3)


def fam_store(E, n, flavour, caps=(1, 2, float('inf'))):
    cap = caps[E.pick('cap', len(caps))]
    kinds = [E.pick('kind%d' % i, 2) for i in range(n)]          # 0 put, 1 get
    at = [E.int('a%d' % i, 0, 10) for i in range(n)]
    prio = [E.int('p%d' % i, 0, 5) for i in range(n)] if flavour == PRIORITY else None
    want = [E.pick('f%d' % i, n + 1) for i in range(n)] if flavour == FILTER else None
    log = Log()
    env = Environment()
    store = {PLAIN: Store, PRIORITY: PriorityStore, FILTER: FilterStore}[flavour](env, capacity=cap)
    registry = {}

    class Part:
        """items that all compare equal but are told apart by the filters (serial number)"""
        def __init__(self, serial):
            self.serial = serial

        def __eq__(self, other):
            return isinstance(other, Part) or other == self.serial

        def __hash__(self):
            return 7

    def item_of(i):
        if flavour == FILTER:
            return Part(i)
        return PriorityItem(prio[i], i) if flavour == PRIORITY else i

    def ident(item):
        if flavour == FILTER and item is not None:
            return item.serial
        return item.item if flavour == PRIORITY and item is not None else item

    def proc(i):
        yield env.timeout(at[i])
        log(i, 'request')
        if kinds[i] == 0:
            req = store.put(item_of(i))
        elif flavour == FILTER and want[i] < n:
            req = store.get(lambda x, j=want[i]: ident(x) == j)
        else:
            req = store.get()
        registry[id(req)] = (i, req)      # keeps req alive: no id reuse
        if req.triggered:
            log(i, 'grant', req.value)
        item = yield req
        log(i, 'resumed', ident(item))
        E.prove(len(store.items) <= cap, 'store-within-capacity')
        if flavour == FILTER:
            left = sorted(ident(x) for x in store.items)
            E.prove(len(set(left)) == len(left), 'each-item-stored-once', ('%r', left))

    def accepts(g, item):
        return flavour != FILTER or want[g] >= n or want[g] == item

    class Model:
        def __init__(self):
            self.items = []          # producer ids, in the order the policy hands them out
            self.q = {0: [], 1: []}
            self.value = {}

        def request(self, i, t):
            self.q[kinds[i]].append(i)

        def next_get(self):
            """the get the policy serves next and the item it receives, or None"""
            for g in self.q[1]:
                hit = [x for x in self.items if accepts(g, x)]
                if hit:
                    return g, hit[0]
                if flavour != FILTER:
                    return None       # only filters may be passed over
            return None

        def grant(self, i, t, value):
            if kinds[i] == 0:
                q = self.q[0]
                if not E.prove(bool(q) and q[0] == i, 'granted-in-request-order', ('%r %r', i, q)):
                    return
                E.prove(len(self.items) < cap, 'store-within-capacity')
                q.pop(0)
                if flavour == PRIORITY:
                    k = 0
                    while k < len(self.items) and LE(prio[self.items[k]], prio[i]):
                        k += 1
                    self.items.insert(k, i)
                else:
                    self.items.append(i)
            else:
                nxt = self.next_get()
                if not E.prove(nxt is not None and nxt[0] == i, 'get-granted-in-policy-order',
                               ('get %r granted, policy says %r (queue %r, items %r)',
                                i, nxt, self.q[1], self.items)):
                    return
                E.prove(ident(value) == nxt[1], 'store-hands-out-the-right-item',
                        ('get %r received %r, policy item %r of %r', i, ident(value), nxt[1],
                         self.items))
                self.q[1].remove(i)
                self.items.remove(nxt[1])
                self.value[i] = nxt[1]

        def end_of_step(self, t):
            if self.q[0]:
                E.prove(not (len(self.items) < cap),
                        'grantable-head-request-is-granted-within-the-time-step',
                        ('put %r pending after step %r with %d items', self.q[0][0], t,
                         len(self.items)))
            nxt = self.next_get()
            E.prove(nxt is None, 'grantable-head-request-is-granted-within-the-time-step',
                    ('get %r pending after step %r although item %r is there (queue %r, items %r)',
                     nxt and nxt[0], t, nxt and nxt[1], self.q[1], self.items))

    for i in range(n):
        env.process(proc(i))
    if not run_env(E, env, log, registry):
        return
    model = Model()
    replay_model(E, log, model)
    handed = [e[3] for e in log.of_event('resumed') if kinds[e[0]] == 1]
    E.prove(len(set(handed)) == len(handed), 'each-item-handed-out-once')
    E.prove(sorted(ident(x) for x in store.items) == sorted(model.items),
            'store-content-is-what-was-put-and-not-taken',
            ('stored %r, model %r', [ident(x) for x in store.items], model.items))
    for g, item in model.value.items():
        r = log.first(g, 'resumed')
        E.prove(r is not None and r[3] == item, 'process-receives-the-granted-item')
    if flavour == FILTER and model.value and any(g for g in model.q[1]):
        E.reach('blocked-filter-passed-over')
    if model.value:
        E.reach('item-delivered')


# ----------------------------------------------------------------------------- Resources
FIFO, PRIO, PREEMPT = range(3)


def fam_resource(E, n, flavour, cancels=False):
    cap = E.pick('cap', 2) + 1
    at = [E.int('a%d' % i, 0, 10) for i in range(n)]
    hold = [E.int('h%d' % i, 1, 10) for i in range(n)]
    prio = [E.int('p%d' % i, 0, 3) for i in range(n)] if flavour != FIFO else [0] * n
    patience = E.int('patience', 0, 10) if cancels else None      # process 0 gives up waiting
    log = Log()
    env = Environment()
    cls = {FIFO: Resource, PRIO: PriorityResource, PREEMPT: PreemptiveResource}[flavour]
    res = cls(env, capacity=cap)
    registry = {}
    causes = {}

    def proc(i):
        yield env.timeout(at[i])
        log(i, 'request')
        try:
            with (res.request() if flavour == FIFO else res.request(priority=prio[i])) as req:
                registry[id(req)] = (i, req)      # keeps req alive: no id reuse
                if req.triggered:
                    log(i, 'grant', None)
                if cancels and i == 0:
                    yield req | env.timeout(patience)
                    if not req.triggered:
                        log(i, 'gave-up')
                        return
                else:
                    yield req
                log(i, 'resumed', len(res.users))
                E.prove(len(res.users) <= cap, 'never-more-users-than-capacity',
                        ('%d users, capacity %d', len(res.users), cap))
                yield env.timeout(hold[i])
                log(i, 'release')
        except Interrupt as intr:
            causes[i] = intr.cause
            log(i, 'preempted')

    class Model:
        def __init__(self):
            self.users, self.queue = [], []
            self.req_time, self.grant_time = {}, {}
            self.evicted = {}

        def key(self, i):
            return (prio[i], self.req_time[i])

        def better(self, a, b):
            (pa, ta), (pb, tb) = self.key(a), self.key(b)
            if LT(pa, pb):
                return True
            if GT(pa, pb):
                return False
            return bool(LT(ta, tb))

        def head(self):
            if not self.queue:
                return None
            if flavour == FIFO:
                return self.queue[0]
            nxt = self.queue[0]
            for q in self.queue[1:]:
                if self.better(q, nxt):
                    nxt = q
            return nxt

        def request(self, i, t):
            self.req_time[i] = t
            self.queue.append(i)
            if flavour == PREEMPT and len(self.users) >= cap:
                # users that may be evicted: strictly worse than the request, and no other
                # user strictly worse than them (ties: either may go)
                cands = [u for u in self.users if self.better(i, u) and
                         not any(self.better(u, w) for w in self.users if w != u)]
                if cands:
                    # the victim is the process that gets interrupted *by this request*
                    nxt = [e for e in self.future if e[1] == 'preempted' and
                           e[0] not in self.evicted and e[0] in causes and
                           getattr(causes[e[0]], 'by', None) is procs[i]]
                    if E.prove(bool(nxt) and nxt[0][0] in cands, 'evicted-user-is-interrupted',
                               ('request %r (priority %r) must evict one of %r; interrupted by '
                                'it: %r', i, prio[i], cands, [e[0] for e in nxt])):
                        victim = nxt[0][0]
                        self.users.remove(victim)
                        self.evicted[victim] = (i, t)

        def grant(self, i, t, value):
            h = self.head()
            E.prove(h == i, 'granted-in-policy-order',
                    ('request %r (priority %r, time %r) granted, policy head is %r, queue %r',
                     i, prio[i], self.req_time.get(i), h, self.queue))
            E.prove(len(self.users) < cap, 'never-more-users-than-capacity')
            if i in self.queue:
                self.queue.remove(i)
            self.users.append(i)
            self.grant_time[i] = t

        def release(self, i, t):
            if i in self.users:
                self.users.remove(i)

        def gave_up(self, i, t):
            if i in self.queue:
                self.queue.remove(i)

        def preempted(self, i, t):
            E.prove(i in self.evicted, 'only-evicted-users-are-interrupted', ('process %r', i))
            if i in self.evicted:
                E.prove(EQ(self.evicted[i][1], t), 'preempted-in-the-time-step-of-the-better-request')

        def end_of_step(self, t):
            h = self.head()
            E.prove(h is None or len(self.users) >= cap,
                    'grantable-head-request-is-granted-within-the-time-step',
                    ('request %r pending after time step %r with %d of %d users',
                     h, t, len(self.users), cap))

    procs = [env.process(proc(i)) for i in range(n)]
    if not run_env(E, env, log, registry):
        return
    model = Model()
    replay_model(E, log, model)
    for i, (by, t) in model.evicted.items():
        E.reach('preemption')
        if E.prove(log.has(i, 'preempted') and i in causes, 'evicted-user-is-interrupted',
                   ('process %d', i)):
            cause = causes[i]
            E.prove(isinstance(cause, Preempted) and cause.by is procs[by],
                    'Preempted.by-is-the-preempting-process')
            E.prove(EQ(cause.usage_since, model.grant_time[i]),
                    'Preempted.usage_since-is-the-grant-time')
            E.prove(cause.resource is res, 'Preempted.resource')
    E.prove(len(res.users) == len(model.users), 'users-at-end-match-model',
            ('%d users, model %r', len(res.users), model.users))
    E.prove(len(res.users) == 0 if not model.queue else True, 'everything-released-at-the-end')
    if len(model.grant_time) == n:
        E.reach('all-granted')
    if log.has(0, 'gave-up'):
        E.reach('gave-up')


def fam_two_resources(E):
    """a process holding a plain Resource and, nested inside, a PreemptiveResource is preempted
    on the inner one: leaving both `with` blocks must give back both"""
    c = E.int('c', 0, 10)             # the urgent request
    w = E.int('w', 0, 10)             # the colleague asks for the tool
    hold = E.int('hold', 1, 10)
    log = Log()
    env = Environment()
    tool = Resource(env, capacity=1)
    machine = PreemptiveResource(env, capacity=1)

    def worker():
        try:
            with tool.request() as t:
                yield t
                log('wk', 'tool')
                with machine.request(priority=5) as m:
                    yield m
                    log('wk', 'machine')
                    yield env.timeout(hold)
                    log('wk', 'done')
        except Interrupt:
            log('wk', 'preempted')

    def urgent():
        yield env.timeout(c)
        with machine.request(priority=0) as m:
            yield m
            log('ur', 'machine')
            yield env.timeout(1)

    def colleague():
        yield env.timeout(w)
        log('co', 'request')
        with tool.request() as t:
            yield t
            log('co', 'tool')

    for p_ in (worker, urgent, colleague):
        env.process(p_())
    if not run_env(E, env, log, {}):
        return
    E.prove(len(tool.users) == 0 and len(machine.users) == 0, 'everything-released-at-the-end',
            ('tool users %r, machine users %r', tool.users, machine.users))
    E.prove(log.has('co', 'tool') and log.has('ur', 'machine'), 'every-request-is-served',
            ('%r', [e[:2] for e in log.events]))
    if log.has('wk', 'preempted'):
        E.reach('preempted')
        pe, ct = log.first('wk', 'preempted'), log.first('co', 'tool')
        rq = log.first('co', 'request')
        if ct is not None and rq is not None:
            from ..engine import MAX as _MAX
            E.prove(LE(ct[2], _MAX(pe[2], rq[2])), 'released-resource-is-granted-in-that-time-step',
                    ('tool released at %r, requested at %r, granted at %r', pe[2], rq[2], ct[2]))


# Log needs a helper used above
def _of_event(self, event):
    return [e for e in self.events if e[1] == event]


Log.of_event = _of_event

FAMILIES = [
    Family('container', fam_container, quick=dict(n=3), thorough=dict(n=4),
           reach=['pending-at-end', 'several-grants'], bounds='Container, 3 (thorough 4) requests'),
    Family('container_cancel', fam_container, quick=dict(n=3, cancels=True),
           thorough=dict(n=4, cancels=True), reach=['gave-up'],
           bounds='Container; the request of process 0 is cancelled after a symbolic patience'),
    Family('store', fam_store, quick=dict(n=3, flavour=PLAIN), thorough=dict(n=4, flavour=PLAIN),
           reach=['item-delivered'], bounds='Store'),
    Family('priority_store', fam_store, quick=dict(n=3, flavour=PRIORITY),
           thorough=dict(n=4, flavour=PRIORITY), reach=['item-delivered'], bounds='PriorityStore'),
    Family('filter_store', fam_store, quick=dict(n=3, flavour=FILTER, caps=(1, float('inf'))),
           thorough=dict(n=4, flavour=FILTER, caps=(1,), _max_paths=900000, _max_wall=1200),
           reach=['item-delivered', 'blocked-filter-passed-over'], bounds='FilterStore'),
    Family('resource', fam_resource, quick=dict(n=3, flavour=FIFO), thorough=dict(n=4, flavour=FIFO),
           reach=['all-granted'], bounds='Resource'),
    Family('two_resources', fam_two_resources, quick=dict(), thorough=dict(),
           reach=['preempted'],
           bounds='nested Resource + PreemptiveResource held by one process that is preempted'),
    Family('resource_cancel', fam_resource, quick=dict(n=3, flavour=FIFO, cancels=True),
           thorough=dict(n=3, flavour=PRIO, cancels=True),
           reach=['gave-up'], bounds='Resource with a request that is cancelled after a patience'),
    Family('priority_resource', fam_resource, quick=dict(n=3, flavour=PRIO),
           thorough=dict(n=4, flavour=PRIO), reach=['all-granted'], bounds='PriorityResource'),
    Family('preemptive_resource', fam_resource, quick=dict(n=3, flavour=PREEMPT),
           thorough=dict(n=4, flavour=PREEMPT, _max_paths=1200000, _max_wall=1200), reach=['preemption'],
           bounds='PreemptiveResource'),
]
