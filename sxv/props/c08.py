"""
C08  Awaiting a condition returns only when it is true, and is never missed.

A condition expression (finite choice of shape over atoms: two flags, a tracked value compared
with a symbolic threshold by one of the six operators, a resource level comparison, task.done,
time >= t, time < t, time == t) is awaited by one or two waiters starting at symbolic dates
while a driver performs up to three changes (toggle a flag, set the tracked value / resource
level to a symbolic number) at symbolic dates - gaps of zero make changes revert within one
time step.  A reference evaluator (`ref`) computes the truth of the expression from the
*atom states* only; the derived usim condition objects are never consulted by it.
"""
import operator

from usim import time, Scope, Flag, Tracked, Resources, instant

from ..engine import EQ, NE, GE, LE, LT, GT, AND, OR, NOT, IMPLIES, IFF, SBool
from ..explore import Family
from ..kit import Log, simulate, now, classify_run_exception, STATE, Fault
from ..probe import Probe

BOUNDS = ('expression shapes: X, ~X, X&Y, X|Y, ~(X&Y), ~(X|Y), (X&Y)|Z, (X|Y)&Z, ~~X, X&Y&Z with '
          'atoms chosen per position; tracked value, threshold and new values in [-5,5]; dates in '
          '[0,20]; up to 3 driver changes (gap 0 = same time step); 1 (thorough 2) waiters')
ASSUMPTIONS = ['Moment (time == t) is never inverted (documented as not invertible)']

OPS = [operator.ge, operator.gt, operator.le, operator.lt, operator.eq, operator.ne]
REL = {operator.ge: GE, operator.gt: GT, operator.le: LE, operator.lt: LT, operator.eq: EQ,
       operator.ne: NE}

# atom kinds
F1, F2, TR, AFTER, BEFORE, MOMENT, DONE, RES, TR2 = range(9)
ATOM_NAMES = ['flag1', 'flag2', 'tracked?x', 'time>=t', 'time<t', 'time==t', 'task.done', 'res>=x',
              'tracked?tracked2']


class World:
    """atoms: usim objects + the means to read their state independently"""

    def __init__(self, E, real=False):
        self.E = E
        self.f1, self.f2 = Flag(), Flag()
        self.tv = E.int('tv0', -5, 5)
        self.tr = Tracked(self.tv)
        self.tr2 = None         # second tracked value: only built for the atom tracked?tracked2
        self.res = Resources(0, x=E.int('r0', 0, 5))
        self.task = None
        self.params = {}

    def make(self, pos, kind):
        """(usim condition, reference thunk(tnow) -> bool/SBool) for the atom at position pos"""
        E = self.E
        if kind == F1:
            return self.f1, lambda tnow: self.f1._value
        if kind == F2:
            return self.f2, lambda tnow: self.f2._value
        if kind == TR:
            op = OPS[E.pick('op%s' % pos, len(OPS))]
            x = E.int('x%s' % pos, -5, 5)
            return op(self.tr, x), lambda tnow: REL[op](self.tr._value, x)
        if kind == TR2:
            # both operands are tracked values: a change of either one must reach the waiters
            op = OPS[E.pick('op%s' % pos, len(OPS))]
            if self.tr2 is None:
                self.tr2 = Tracked(E.int('tv2', -5, 5))
            return op(self.tr, self.tr2), lambda tnow: REL[op](self.tr._value, self.tr2._value)
        if kind == RES:
            x = E.int('x%s' % pos, 0, 5)
            return self.res >= dict(x=x), lambda tnow: GE(self.res.levels.x, x)
        if kind == AFTER:
            t = E.int('t%s' % pos, 0, 20)
            return time >= t, lambda tnow: GE(tnow, t)
        if kind == BEFORE:
            t = E.int('t%s' % pos, 0, 20)
            return time < t, lambda tnow: LT(tnow, t)
        if kind == MOMENT:
            t = E.int('t%s' % pos, 0, 20)
            return time == t, lambda tnow: EQ(tnow, t)
        if kind == DONE:
            return self.task.done, lambda tnow: self.task._result is not None
        raise AssertionError(kind)


SHAPES = ['X', '~X', 'X&Y', 'X|Y', '~(X&Y)', '~(X|Y)', '(X&Y)|Z', '(X|Y)&Z', '~~X', 'X&Y&Z',
          '(X&Y)&(Z|X)']


def build(shape, X, Y, Z):
    """usim condition + reference thunk for a shape; atoms are (cond, ref) pairs"""
    cx, rx = X
    cy, ry = Y if Y else (None, None)
    cz, rz = Z if Z else (None, None)
    if shape == 'X':
        return cx, rx
    if shape == '~X':
        return ~cx, lambda t: NOT(rx(t))
    if shape == '~~X':
        return ~~cx, rx
    if shape == 'X&Y':
        return cx & cy, lambda t: AND(rx(t), ry(t))
    if shape == 'X|Y':
        return cx | cy, lambda t: OR(rx(t), ry(t))
    if shape == '~(X&Y)':
        return ~(cx & cy), lambda t: NOT(AND(rx(t), ry(t)))
    if shape == '~(X|Y)':
        return ~(cx | cy), lambda t: NOT(OR(rx(t), ry(t)))
    if shape == '(X&Y)|Z':
        return (cx & cy) | cz, lambda t: OR(AND(rx(t), ry(t)), rz(t))
    if shape == '(X|Y)&Z':
        return (cx | cy) & cz, lambda t: AND(OR(rx(t), ry(t)), rz(t))
    if shape == 'X&Y&Z':
        return cx & cy & cz, lambda t: AND(rx(t), ry(t), rz(t))
    if shape == '(X&Y)&(Z|X)':
        return (cx & cy) & (cz | cx), lambda t: AND(rx(t), ry(t), OR(rz(t), rx(t)))
    raise AssertionError(shape)


def fam_cond(E, shapes, xk, yk, zk, nchanges=3, nwaiters=1, real=False, fault_kinds=None,
             ndrivers=1):
    shape = shapes[E.pick('shape', len(shapes))]
    W = World(E)
    kx = xk[E.pick('kx', len(xk))]
    ky = yk[E.pick('ky', len(yk))] if 'Y' in shape else None
    kz = zk[E.pick('kz', len(zk))] if 'Z' in shape else None
    if MOMENT in (kx, ky, kz) and '~' in shape:
        E.assume(False, 'Moment cannot be inverted')
    uses_task = DONE in (kx, ky, kz)
    dtask = E.int('dtask', 0, 20) if uses_task else None
    starts = [E.int('w%d' % i, 0, 20) for i in range(nwaiters)]
    # the driver only performs changes that can affect an atom of the expression
    relevant = [w for w, kind in ((0, F1), (1, F2), (2, TR), (3, RES), (2, TR2), (4, TR2))
                if kind in (kx, ky, kz)]
    relevant = sorted(set(relevant))
    changes = []
    for k in range(nchanges if relevant else 0):
        what = relevant[E.pick('chg%d' % k, len(relevant))]
        gap = E.int('gap%d' % k, 0, 10)
        val = E.int('val%d' % k, -5 if what in (2, 4) else 0, 5) if what >= 2 else None
        changes.append((what, gap, val))
    log = Log()
    holder = {}
    waiting = {}        # waiter -> True while suspended in the await
    # optionally the driver itself is cancelled / interrupted at (c,p), e.g. in the middle of a
    # change: whatever part of the change happened must still reach the waiters
    fault = Fault(E, 'f', fault_kinds, hi=20, pmax=2) if fault_kinds else None

    async def sleeper():
        await (time + dtask)

    async def driver(d=0):
        # with several drivers the changes are dealt out round-robin; two drivers whose dates
        # coincide change the atoms in one time step *between* a waiter's wake-up being queued
        # and the waiter running (set by one activity, reverted by another)
        for what, gap, val in changes[d::ndrivers]:
            await (time + gap)
            log('drv', 'change', what)
            if what == 0:
                await W.f1.set(not W.f1._value)
            elif what == 1:
                await W.f2.set(not W.f2._value)
            elif what == 2:
                await W.tr.set(val)
            elif what == 4:
                await W.tr2.set(val)
            else:
                await W.res.set(x=val)

    def ref(tnow=None):
        return holder['ref'](now() if tnow is None else tnow)

    async def waiter(i):
        await (time + starts[i])
        cond = holder['cond']
        loop = STATE.loop
        t0, n0 = loop.time, loop.turn
        E.prove(IFF(bool(cond), ref()), 'bool-follows-boolean-algebra')
        log(i, 'await')
        waiting[i] = True
        await cond
        waiting[i] = False
        log(i, 'resume')
        # only when it is true
        E.prove(ref(), 'condition-true-on-resume',
                ('%s with atoms %r resumed at %r while false', shape, (kx, ky, kz), now()))
        E.prove(bool(cond), 'condition-object-true-on-resume')
        # always lets others run at least once
        E.prove(loop.time is not t0 or loop.turn > n0, 'await-always-postpones')

    async def root():
        async with Scope() as top:
            if uses_task:
                W.task = top.do(sleeper())
            X = W.make('X', kx)
            Y = W.make('Y', ky) if ky is not None else None
            Z = W.make('Z', kz) if kz is not None else None
            holder['cond'], holder['ref'] = build(shape, X, Y, Z)
            for i in range(nwaiters):
                top.do(waiter(i), volatile=True)
            if fault is not None:
                fault.spawn(top, driver, log)
            else:
                top.do(driver())
            for d in range(1, ndrivers):
                top.do(driver(d))
            await (time + 60)

    state = {'last': None}

    def hook(loop, target, signal):
        if 'cond' not in holder:
            return
        t = loop.time
        last = state['last']
        if last is not None and last is not t:
            # the clock advanced: nobody may have been left waiting on a true condition at the
            # end of the previous time step (atom states are still those of that step)
            for i, w in waiting.items():
                if w:
                    E.prove(NOT(ref(last)), 'never-missed-at-end-of-time-step',
                            ('%s atoms %r: waiter %d still waiting after step %r in which the '
                             'condition held', shape, (kx, ky, kz), i, last))
        state['last'] = t
        # derived condition objects follow boolean algebra on the current atom values
        E.prove(IFF(bool(holder['cond']), ref(t)), 'bool-follows-boolean-algebra',
                ('%s atoms %r at %r', shape, (kx, ky, kz), t))

    probe = Probe()
    probe.hooks.append(hook)
    out = simulate(root(), log=log, probe=probe)
    bad = classify_run_exception(out.exc, allowed=())
    E.prove(bad is None, 'run-ends-normally', bad)
    if out.exc is not None:
        return
    E.reach(shape)
    for i in range(nwaiters):
        if log.has(i, 'resume'):
            E.reach('resumed')
        else:
            E.reach('never-true')
    # quiescence: whoever still waits must be waiting for a false condition
    final_t = state['last']
    for i, w in waiting.items():
        if w:
            E.prove(NOT(holder['ref'](final_t)), 'never-missed-at-quiescence',
                    ('%s atoms %r: waiter %d left waiting although the condition holds',
                     shape, (kx, ky, kz), i))


def fam_float_time(E):
    """IEEE double dates: await (time >= d) / (time == d) / ~(time < d) entered at a float date
    must return only when the condition is true"""
    e = E.float('e', 0.0, 50.0)
    d = E.float('d', 0.0, 100.0)
    kind = E.pick('kind', 3)
    log = Log()

    async def waiter():
        await (time + e)
        cond = (time >= d) if kind == 0 else ((time == d) if kind == 1 else ~(time < d))
        log('w', 'await')
        await cond
        t = now()
        log('w', 'resume')
        E.prove(bool(cond), 'condition-object-true-on-resume')
        E.prove(GE(t, d) if kind != 1 else EQ(t, d), 'condition-true-on-resume',
                ('resumed at %r for date %r', t, d))

    out = simulate(waiter(), log=log, probe=Probe(check_clock=False))
    bad = classify_run_exception(out.exc, allowed=())
    E.prove(bad is None, 'run-ends-normally', bad)
    if log.has('w', 'resume'):
        E.reach('resumed')


BASIC = ['X', '~X', 'X&Y', 'X|Y']
FAMILIES = [
    Family('atoms', fam_cond,
           quick=dict(shapes=['X', '~X', '~~X'], xk=[F1, TR, AFTER, BEFORE, DONE, RES], yk=[F2],
                      zk=[F2], nchanges=2),
           thorough=dict(shapes=['X', '~X', '~~X'], xk=[F1, TR, AFTER, BEFORE, MOMENT, DONE, RES],
                         yk=[F2], zk=[F2], nchanges=3, nwaiters=2),
           reach=['X', '~X', '~~X', 'resumed', 'never-true'],
           bounds='single atoms and their inversions'),
    Family('binary', fam_cond,
           quick=dict(shapes=['X&Y', 'X|Y', '~(X&Y)', '~(X|Y)'], xk=[F1, TR], yk=[F2, AFTER],
                      zk=[F2], nchanges=2),
           thorough=dict(shapes=['X&Y', 'X|Y', '~(X&Y)', '~(X|Y)'], xk=[F1, TR, RES, DONE],
                         yk=[F2, AFTER, BEFORE, MOMENT], zk=[F2], nchanges=3),
           reach=['X&Y', 'X|Y', '~(X&Y)', '~(X|Y)', 'resumed', 'never-true'],
           bounds='binary connectives and De Morgan pairs'),
    Family('nested', fam_cond,
           quick=dict(shapes=['(X&Y)|Z', '(X|Y)&Z', '(X&Y)&(Z|X)'], xk=[F1], yk=[TR],
                      zk=[F2], nchanges=2),
           thorough=dict(shapes=['(X&Y)|Z', '(X|Y)&Z', 'X&Y&Z', '(X&Y)&(Z|X)'], xk=[F1],
                         yk=[TR, F2], zk=[F2, AFTER, DONE], nchanges=2, _max_paths=900000,
                         _max_wall=1200),
           reach=['(X&Y)|Z', '(X|Y)&Z', '(X&Y)&(Z|X)', 'resumed'],
           bounds='depth-2 trees'),
    Family('driver_fault', fam_cond,
           quick=dict(shapes=['X'], xk=[F1, TR, RES], yk=[F2], zk=[F2], nchanges=1,
                      fault_kinds=[Fault.CANCEL, Fault.INTERRUPT]),
           thorough=dict(shapes=['X', 'X&Y'], xk=[F1, TR, RES], yk=[F2], zk=[F2], nchanges=2,
                         fault_kinds=[Fault.CANCEL, Fault.INTERRUPT, Fault.CLOSE]),
           reach=['resumed'],
           bounds='the activity that changes the atoms is cancelled / interrupted at (c,p)'),
    Family('two_drivers', fam_cond,
           quick=dict(shapes=['X', 'X&Y'], xk=[F1, TR], yk=[F2], zk=[F2], nchanges=2, ndrivers=2),
           thorough=dict(shapes=['X', '~X', 'X&Y', 'X|Y'], xk=[F1, TR, RES], yk=[F2, AFTER],
                         zk=[F2], nchanges=3, ndrivers=2, _max_wall=1200),
           reach=['resumed', 'never-true'],
           bounds='the changes are made by two independent activities (a change can be reverted '
                  'by another activity in the time step in which it woke the waiter)'),
    Family('tracked_pair', fam_cond,
           quick=dict(shapes=['X', '~X', 'X&Y'], xk=[TR2], yk=[F2], zk=[F2], nchanges=2),
           thorough=dict(shapes=['X', '~X', 'X&Y', 'X|Y', '~(X|Y)'], xk=[TR2], yk=[F2, AFTER],
                         zk=[F2], nchanges=3),
           reach=['resumed', 'never-true'],
           bounds='comparison of two tracked values (six operators), either of which is changed'),
    Family('float_time', fam_float_time, quick=dict(), thorough=dict(), reach=['resumed'],
           bounds='time conditions on IEEE double dates (z3 floating point)'),
    Family('two_waiters', fam_cond,
           quick=dict(shapes=['X&Y'], xk=[TR], yk=[F2], zk=[F2], nchanges=2, nwaiters=2),
           thorough=dict(shapes=['X', 'X&Y', 'X|Y'], xk=[F1, TR], yk=[F2, AFTER], zk=[F2],
                         nchanges=2, nwaiters=2, _max_wall=1200),
           reach=['resumed'], bounds='two concurrent waiters on the same condition'),
]


def fam_reuse_cond(E, modes=(0, 1), shapes=(0, 1)):
    """one stored derived condition object - (a & b) | c or a | c - is used twice, by two waiters
    starting at free dates, while a driver toggles the flags through a fixed sequence at free
    dates (c on, a on, c off, a off, a on; b is on throughout): the first use may be released by
    one branch while the other is false, the other branch may become true while nobody is
    subscribed, everything may be reset before the second use.  mode 0: `await cond`; mode 1:
    `async with until(cond)` around an endless body.  What an earlier use left behind in the
    condition object must not matter."""
    from usim import until, eternity
    mode = modes[E.pick('mode', len(modes))]
    shape = shapes[E.pick('shape', len(shapes))]
    g = [E.int('g%d' % i, 0, 6) for i in range(5)]
    w = [E.int('w%d' % i, 0, 30) for i in range(2)]
    a, b, c = Flag(), Flag(), Flag()
    d = Flag()
    # shape 2: a & d with the sequence a on, a off, d on, a on - an operand that was true when
    # the wait began turns false and true again while the other one becomes true
    cond = ((a & b) | c) if shape == 0 else ((a | c) if shape == 1 else (a & d))
    log = Log()
    waiting = {}

    def ref():
        if shape == 2:
            return bool(a._value and d._value)
        return bool((a._value and (b._value or shape == 1)) or c._value)

    async def driver():
        await b.set()
        seq = ((c, True), (a, True), (c, False), (a, False), (a, True)) if shape != 2 else \
            ((a, True), (a, False), (d, True), (a, True), (d, True))
        for k, (flag, val) in enumerate(seq):
            await (time + g[k])
            log('drv', 'toggle', k)
            await flag.set(val)

    async def waiter(i):
        await (time + w[i])
        log(i, 'await')
        waiting[i] = True
        if mode == 0:
            await cond
        else:
            async with until(cond):
                await eternity
        waiting[i] = False
        log(i, 'resume')
        if mode == 0:
            # (an until-block is abandoned once its notification fired, whatever happens to the
            # condition before the activity gets its turn)
            E.prove(ref(), 'condition-true-on-resume',
                    ('waiter %d resumed at %r while false', i, now()))

    async def root():
        async with Scope() as top:
            top.do(driver())
            for i in range(2):
                top.do(waiter(i), volatile=True)
            await (time + 80)

    state = {'last': None, 'held': False}

    def hook(loop, target, signal):
        t = loop.time
        last = state['last']
        if last is not None and last is not t:
            for i, wt in waiting.items():
                if wt:
                    E.prove(not state['held'], 'never-missed-at-end-of-time-step',
                            ('waiter %d still waiting after step %r in which the stored '
                             'condition held', i, last))
        state['last'] = t
        state['held'] = ref()
        E.prove(bool(cond) == ref(), 'bool-follows-boolean-algebra')

    probe = Probe()
    probe.hooks.append(hook)
    out = simulate(root(), log=log, probe=probe)
    bad = classify_run_exception(out.exc, allowed=())
    E.prove(bad is None, 'run-ends-normally', bad)
    if out.exc is not None:
        return
    for i in range(2):
        # the flags end with a on: everybody is released in the end
        E.prove(log.has(i, 'resume'), 'never-missed-at-quiescence', ('waiter %d', i))
    r0, a1 = log.first(0, 'resume'), log.first(1, 'await')
    if r0 is not None and a1 is not None and log.pos(r0) < log.pos(a1):
        E.reach('second-use-after-the-first-was-released')
    t3 = [x for x in log.of('drv', 'toggle') if x[3] == 3]
    if t3 and a1 is not None and log.pos(t3[0]) < log.pos(a1):
        E.reach('second-use-after-a-reset')


FAMILIES.append(
    Family('reuse_cond', fam_reuse_cond, quick=dict(modes=(0,), shapes=(0, 1, 2)),
           thorough=dict(shapes=(0, 1, 2)),
           reach=['second-use-after-the-first-was-released', 'second-use-after-a-reset'],
           bounds='a stored (a & b) | c / a | c object awaited (or used by until) by two waiters '
                  'starting in [0,30] while five flag toggles happen at free gaps in [0,6]'))


def fam_sync_sources(E):
    """derived conditions read the *current* values of their operands, also
     * inside one turn, when an operand changes synchronously (`task.done` of a task that is
       cancelled before it started flips while the canceller keeps running), and
     * when one stored derived condition object is evaluated in two consecutive simulations at
       the same (time, turn) with an operand changed in between."""
    shape = E.pick('shape', 4)
    p = E.pick('p', 3)              # the evaluations happen p turns into the simulation
    fv = E.flag('fv')
    a, b = Flag(), Flag()
    stored = [a | b, a & b, (a & b) | a, ~a | b][shape]

    def ref_stored():
        va, vb = a._value, b._value
        return [va or vb, va and vb, (va and vb) or va, (not va) or vb][shape]

    for k in range(2):
        log = Log()

        async def sub():
            log('sub', 'start')
            await (time + 1)

        async def main():
            async with Scope() as s:
                for _ in range(p):
                    await instant
                # the stored condition, first thing in this simulation at this turn
                E.prove(bool(stored) == ref_stored(), 'bool-follows-boolean-algebra',
                        ('simulation %d: stored condition reads %r, operands a=%r b=%r', k,
                         bool(stored), a._value, b._value))
                f = Flag()
                if fv:
                    await f.set()
                t = s.do(sub())         # not started before this turn of ours ends
                conds = [t.done | f, t.done & f, ~t.done & f, ~(t.done | f)]
                refs = [lambda d, v: d or v, lambda d, v: d and v, lambda d, v: (not d) and v,
                        lambda d, v: not (d or v)]
                before = [bool(c) for c in conds]
                E.prove(before == [r(False, f._value) for r in refs],
                        'bool-follows-boolean-algebra', ('before the cancel: %r', before))
                t.cancel()
                # same turn, same condition objects: task.done is true now
                after = [bool(c) for c in conds]
                E.prove(bool(t.done), 'cancelled-unstarted-task-is-done-at-once')
                E.prove(after == [r(True, f._value) for r in refs],
                        'bool-follows-boolean-algebra',
                        ('same turn after cancelling the unstarted task: %r, flag %r', after,
                         f._value))
                E.reach('synchronous-change')
                # change the operands of the stored condition for the next simulation
                if k == 0:
                    await a.set(not a._value)
                    E.prove(bool(stored) == ref_stored(), 'bool-follows-boolean-algebra')

        out = simulate(main(), log=log)
        bad = classify_run_exception(out.exc, allowed=())
        E.prove(bad is None, 'run-ends-normally', bad)
        if out.exc is not None:
            return
        E.prove(not log.has('sub', 'start'), 'cancelled-unstarted-task-never-runs')
        if k == 1:
            E.reach('second-simulation')


FAMILIES.append(
    Family('sync_sources', fam_sync_sources, quick=dict(), thorough=dict(),
           reach=['synchronous-change', 'second-simulation'],
           bounds='4 connective shapes over task.done / a flag evaluated before and after a '
                  'synchronous change inside one turn; 4 stored shapes over two flags evaluated at '
                  'the same (time, turn) of two consecutive simulations'))


def _reuse_runs(E, **kw):
    from .c07 import fam_reuse_runs
    return fam_reuse_runs(E, **kw)


FAMILIES.append(
    Family('time_atoms_reuse_runs', _reuse_runs, quick=dict(kinds=(1, 2)), thorough=dict(kinds=(1, 2), real=True),
           reach=['second-run', 'second-run-starts-before-the-date', 'first-simulation-aborted'],
           bounds='one stored `time == u` / `time >= u` atom awaited (or used by until) in two '
                  'consecutive simulations with symbolic start times (harness shared with C01 / C07)'))
