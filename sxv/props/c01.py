"""
C01  Virtual time is monotone and every timed wait resumes at exactly its date.

Families: k concurrently running activities, each performing a sequence of timed waits whose
kind is a finite choice and whose date / delay is a symbolic number (past, now, future, equal
to other activities' dates).  Oracle: an independent clock model per activity (below), plus
the loop-level obligations of the probe (clock monotone, every activation runs exactly at the
time it was scheduled for, nothing due earlier is left queued when the clock advances).
"""
from usim import time, Scope, until, instant, eternity

from ..engine import EQ, GE, LE, LT, GT, AND, OR, NOT, IMPLIES, MAX, INF
from ..explore import Family
from ..kit import Log, simulate, now, classify_run_exception
from ..probe import Probe
from . import c07 as _c07

BOUNDS = ('start in [-20,20]; delays in [0,60]; dates in [start-30, start+60]; '
          'quick: 1 activity x 3 waits (9 kinds), 2 activities x 2 waits (4 kinds), '
          '3 activities x 1 wait; scope.do(after/at) with 2 children; '
          'thorough adds 3 x 2 waits, 4 x 1 wait, Real (exact rational) dates')
ASSUMPTIONS = [
    'usage preconditions assumed: delay >= 0, do(at=t) with t >= now, do(after=d) with d >= 0',
    'dates are mathematical integers (or exact rationals in the Real families); '
    'IEEE float rounding of dates is not modelled',
]

# wait kinds
DELAY, MOMENT, AFTER, BEFORE, INSTANT, ETERNITY, INF_AFTER, UNTIL_MOMENT, UNTIL_AFTER, \
    INF_DELAY = range(10)
KIND_NAMES = ['time+d', 'time==t', 'time>=t', 'time<t', 'instant', 'eternity', 'time>=inf',
              'until(time==t)', 'until(time>=t)', 'time+inf']
NEVER = 'never'


def expected(kind, arg, now0):
    """independent clock model: date at which a wait started at now0 resumes, or NEVER.
    May refine the path (symbolic comparisons)."""
    if kind == DELAY:
        return now0 + arg
    if kind == MOMENT:
        return arg if arg >= now0 else NEVER
    if kind == AFTER:
        return arg if arg >= now0 else now0
    if kind == BEFORE:
        return now0 if now0 < arg else NEVER
    if kind == INSTANT:
        return now0
    if kind in (INF_AFTER, INF_DELAY):
        return INF      # documented: a float clock may reach inf (but never `eternity`)
    if kind == ETERNITY:
        return NEVER
    raise AssertionError(kind)


async def do_wait(kind, arg):
    if kind == DELAY:
        await (time + arg)
    elif kind == MOMENT:
        await (time == arg)
    elif kind == AFTER:
        await (time >= arg)
    elif kind == BEFORE:
        await (time < arg)
    elif kind == INSTANT:
        await instant
    elif kind == ETERNITY:
        await eternity
    elif kind == INF_AFTER:
        await (time >= INF)
    elif kind == INF_DELAY:
        await (time + INF)
    else:
        raise AssertionError(kind)


def fam_waits(E, k, waits, kinds, real=False):
    start = E.num('start', -20, 20, real=real)
    progs = []
    for i in range(k):
        prog = []
        for j in range(waits):
            kind = kinds[E.pick('kind%d_%d' % (i, j), len(kinds))]
            if kind in (DELAY,):
                arg = E.num('d%d_%d' % (i, j), 0, 60, real=real)
            elif kind in (MOMENT, AFTER, BEFORE, UNTIL_MOMENT, UNTIL_AFTER):
                arg = E.num('t%d_%d' % (i, j), -50, 80, real=real)
                E.assume(AND(GE(arg, start - 30), LE(arg, start + 60)))
            else:
                arg = None
            prog.append((kind, arg))
        progs.append(prog)
    log = Log()

    async def activity(i, prog):
        log(i, 'start')
        for j, (kind, arg) in enumerate(prog):
            if kind in (UNTIL_MOMENT, UNTIL_AFTER):
                # the wait sits inside an until-scope: eternity, cut at the scope's date
                log(i, 'wait', j)
                async with until((time == arg) if kind == UNTIL_MOMENT else (time >= arg)):
                    await eternity
                log(i, 'resume', j)
            else:
                log(i, 'wait', j)
                await do_wait(kind, arg)
                log(i, 'resume', j)
        log(i, 'end')

    async def root():
        async with Scope() as scope:
            for i, prog in enumerate(progs):
                scope.do(activity(i, prog))

    ieee = real == 'float'
    # IEEE mode: the monotonicity obligations need bit-level reasoning about a 64 bit adder and
    # are left to the Int / Real families; the exact-date obligations are kept
    out = simulate(root(), start=start, log=log,
                   probe=Probe(check_clock=not ieee))
    bad = classify_run_exception(out.exc, allowed=())
    E.prove(bad is None, 'run-ends-normally', bad)
    if out.exc is not None:
        return
    # oracle
    for i, prog in enumerate(progs):
        st = log.first(i, 'start')
        E.prove(st is not None and EQ(st[2], start), 'starts-at-start')
        dead = False
        for j, (kind, arg) in enumerate(prog):
            w = [e for e in log.of(i, 'wait') if e[3] == j]
            r = [e for e in log.of(i, 'resume') if e[3] == j]
            if dead:
                E.prove(not w and not r, 'nothing-after-never')
                continue
            if not E.prove(len(w) == 1, 'wait-issued'):
                return
            now0 = w[0][2]
            if kind == UNTIL_MOMENT:
                exp = expected(MOMENT, arg, now0)
            elif kind == UNTIL_AFTER:
                exp = expected(AFTER, arg, now0)
            else:
                exp = expected(kind, arg, now0)
            if exp is NEVER:
                E.reach('never')
                E.prove(not r, 'never-resumes', ('%s resumed at %r', KIND_NAMES[kind], r and r[0][2]))
                dead = True
            else:
                if not E.prove(len(r) == 1, 'resumes',
                               ('%s started at %r never resumed', KIND_NAMES[kind], now0)):
                    return
                E.prove(EQ(r[0][2], exp), 'resumes-at-exact-date',
                        ('%s started at %r resumed at %r, expected %r', KIND_NAMES[kind], now0, r[0][2], exp))
                E.reach_if(EQ(exp, now0), 'same-step')
        E.prove(log.has(i, 'end') == (not dead), 'end-iff-no-never')
    # log is globally ordered in time
    prev = None
    for e in ([] if ieee else log.events):
        if prev is not None:
            E.prove(GE(e[2], prev), 'log-monotone')
        prev = e[2]


def fam_do(E, k, real=False):
    """scope.do(..., after=d / at=t): first statement of the child at exactly that date"""
    start = E.num('start', -20, 20, real=real)
    specs = []
    for i in range(k):
        mode = E.pick('mode%d' % i, 3)       # 0: after=d  1: at=t  2: plain
        if mode == 0:
            arg = E.num('d%d' % i, 0, 60, real=real)
        elif mode == 1:
            arg = E.num('t%d' % i, -50, 80, real=real)
        else:
            arg = None
        pre = E.num('pre%d' % i, 0, 30, real=real)     # parent delay before spawning child i
        specs.append((mode, arg, pre))
    log = Log()

    async def child(i, d):
        log(i, 'first')
        await (time + d)
        log(i, 'second')

    async def root():
        async with Scope() as scope:
            for i, (mode, arg, pre) in enumerate(specs):
                await (time + pre)
                log('root', 'spawn', i)
                if mode == 0:
                    scope.do(child(i, 1), after=arg)
                elif mode == 1:
                    E.assume(GE(arg, now()), 'do(at=t) requires t >= now')
                    scope.do(child(i, 1), at=arg)
                else:
                    scope.do(child(i, 1))
        log('root', 'exit')

    ieee = real == 'float'
    out = simulate(root(), start=start, log=log, probe=Probe(check_clock=not ieee))
    bad = classify_run_exception(out.exc, allowed=())
    E.prove(bad is None, 'run-ends-normally', bad)
    if out.exc is not None:
        return
    latest = None
    for i, (mode, arg, pre) in enumerate(specs):
        sp = [e for e in log.of('root', 'spawn') if e[3] == i]
        f = log.first(i, 'first')
        s = log.first(i, 'second')
        if not E.prove(len(sp) == 1 and f is not None and s is not None, 'child-ran'):
            return
        t0 = sp[0][2]
        exp = t0 + arg if mode == 0 else (arg if mode == 1 else t0)
        E.prove(EQ(f[2], exp), 'child-starts-at-exact-date',
                ('child %d spawned at %r mode %d arg %r started at %r', i, t0, mode, arg, f[2]))
        if ieee:
            continue            # IEEE mode: only the exact start date (cheap for the solver)
        E.prove(EQ(s[2], exp + 1), 'child-second-step-exact')
        latest = exp + 1 if latest is None else MAX(latest, exp + 1)
    ex = log.first('root', 'exit')
    E.prove(ex is not None and (ieee or EQ(ex[2], latest)), 'scope-exits-with-last-child')


def fam_many(E, k, real=False, waitqueue=None):
    """k sleepers with distinct symbolic delays, spawned in order: all k! x ties weak orderings
    of the pending dates, i.e. every shape the wait queue (heap / sorted dict) can take"""
    start = E.num('start', -5, 5, real=real)
    d = [E.num('d%d' % i, 0, 40, real=real) for i in range(k)]
    log = Log()

    async def sleeper(i):
        await (time + d[i])
        log(i, 'resume')

    async def root():
        async with Scope() as scope:
            for i in range(k):
                scope.do(sleeper(i))

    wq = None
    if waitqueue == 'SD':
        from usim._core.waitq import SDWaitQueue as wq
    out = simulate(root(), start=start, log=log, waitqueue=wq)
    bad = classify_run_exception(out.exc, allowed=())
    E.prove(bad is None, 'run-ends-normally', bad)
    if out.exc is not None:
        return
    prev = None
    for i in range(k):
        ev = log.first(i, 'resume')
        if E.prove(ev is not None, 'resumes'):
            E.prove(EQ(ev[2], start + d[i]), 'resumes-at-exact-date',
                    ('sleeper %d slept %r from %r, resumed at %r', i, d[i], start, ev[2]))
    for e in log.events:
        if prev is not None:
            E.prove(GE(e[2], prev), 'log-monotone', ('%r after %r', e[2], prev))
        prev = e[2]


K7 = [DELAY, MOMENT, AFTER, BEFORE, INSTANT, ETERNITY, UNTIL_AFTER]
K9 = list(range(10))
K5 = [DELAY, MOMENT, AFTER, BEFORE, UNTIL_MOMENT]
K4 = [DELAY, MOMENT, AFTER, UNTIL_MOMENT]

FAMILIES = [
    Family('single3', fam_waits,
           quick=dict(k=1, waits=3, kinds=K9),
           thorough=dict(k=1, waits=4, kinds=K9),
           reach=['never', 'same-step'],
           bounds='1 activity, 3 (thorough 4) sequential waits, 9 kinds'),
    Family('pair2', fam_waits,
           quick=dict(k=2, waits=2, kinds=K4),
           thorough=dict(k=2, waits=2, kinds=K9),
           reach=['never', 'same-step'],
           bounds='2 activities x 2 waits'),
    Family('trio1', fam_waits,
           quick=dict(k=3, waits=1, kinds=K7),
           thorough=dict(k=4, waits=1, kinds=K7),
           reach=['never', 'same-step'],
           bounds='3 (thorough 4) activities x 1 wait'),
    Family('trio2', fam_waits,
           thorough=dict(k=3, waits=2, kinds=[DELAY, MOMENT, AFTER, BEFORE], _max_paths=900000,
                         _max_wall=1200),
           bounds='3 activities x 2 waits, 4 kinds'),
    Family('pair2real', fam_waits,
           thorough=dict(k=2, waits=2, kinds=K5, real=True),
           bounds='2 activities x 2 waits, exact rational dates'),
    Family('reuse_runs', _c07.fam_reuse_runs, quick=dict(), thorough=dict(real=True),
           reach=['second-run', 'second-run-starts-before-the-date', 'first-simulation-aborted'],
           bounds='one stored date notification used in two consecutive simulations with symbolic '
                  'start times (harness shared with C07)'),
    Family('reuse', _c07.fam_reuse, quick=dict(), thorough=dict(real=True),
           reach=['first-wait-abandoned', 'second-use-already-true', 'second-use-never'],
           bounds='one stored time == u / time >= u object waited for twice (directly inside '
                  'until(time + b), which may abandon the wait, or as an until notification): the '
                  'second wait resumes exactly at its date / at once / never, whatever the first '
                  'use left behind (harness shared with C07)'),
    Family('many', fam_many,
           quick=dict(k=6),
           thorough=dict(k=7),
           bounds='6 (thorough 7) sleepers: every weak ordering of the pending dates'),
    Family('many_sd', fam_many,
           quick=dict(k=5, waitqueue='SD'),
           thorough=dict(k=6, waitqueue='SD'),
           bounds='as many, on the SortedDict wait queue backend'),
    Family('float_single', fam_waits,
           quick=dict(k=1, waits=2, kinds=[DELAY, MOMENT, AFTER], real='float'),
           bounds='IEEE double dates: 1 activity x 2 waits'),
    Family('float_pair', fam_waits,
           thorough=dict(k=2, waits=1, kinds=[DELAY, MOMENT, AFTER], real='float', _max_wall=1500),
           bounds='IEEE double dates (z3 floating point, RNE): 2 activities x 1 (thorough 2) '
                  'waits; resume date must be the correctly rounded now + d, or exactly t'),
    Family('do2', fam_do,
           quick=dict(k=2),
           thorough=dict(k=3),
           bounds='scope.do(after=/at=/plain) for 2 (thorough 3) children spawned at symbolic dates'),
    Family('do_float', fam_do,
           quick=dict(k=1, real='float'),
           thorough=dict(k=2, real='float', _max_wall=1200),
           bounds='IEEE double dates: scope.do(after=/at=) children must start exactly at the date'),
    Family('do2real', fam_do,
           thorough=dict(k=2, real=True),
           bounds='as do2 with exact rational dates'),
]
