"""
C05  A scope fails as itself or as Concurrent: promptly, with exactly the right content.

n children end at symbolic dates f_i, each by finishing or by raising one of several failure
kinds; the body ends at b by finishing or raising; optionally one child is cancelled by the
body.  Children and body log the exception object immediately before raising it; the oracle
compares the outcome of the block with that log (observational, nothing is predicted that the
program did not do).
"""
from usim import time, Scope, until, instant, eternity, Concurrent, TaskCancelled
from usim import Flag as usim_Flag

from ..engine import EQ, GE, LE, LT, GT, AND, OR, NOT, IMPLIES, MAX, MIN
from ..explore import Family
from . import c16 as _c16
from ..kit import Log, simulate, now, classify_run_exception, UserErr, UserErrA, UserErrB, at_cp

BOUNDS = ('n<=2 (thorough 3) children ending at symbolic dates in [0,30] by finish / UserErrA / '
          'UserErrB / SystemExit / KeyboardInterrupt / AssertionError / nested Concurrent (inner '
          'scope), body ending at b by finish / UserErr / AssertionError, optional cancel of '
          'child 0 by the body at x; all date coincidences and orders')
ASSUMPTIONS = []

FINISH, ERR_A, ERR_B, SYS_EXIT, NESTED, KBD, ASSERTION, CLEANUP = range(8)
PRIVILEGED = (SystemExit, KeyboardInterrupt, AssertionError)


def make_exc(kind, i):
    if kind == ERR_A:
        return UserErrA('child %d' % i)
    if kind == ERR_B:
        return UserErrB('child %d' % i)
    if kind == SYS_EXIT:
        return SystemExit('child %d' % i)
    if kind == KBD:
        return KeyboardInterrupt('child %d' % i)
    if kind == ASSERTION:
        return AssertionError('child %d' % i)
    raise AssertionError(kind)


def fam_fail(E, n, kinds, body_kinds, cancel_one=False, real=False, inner=False,
             scope_kind='scope'):
    ck = [kinds[E.pick('kind%d' % i, len(kinds))] for i in range(n)]
    f = [E.num('f%d' % i, 0, 30, real=real) for i in range(n)]
    bk = body_kinds[E.pick('body', len(body_kinds))]
    b = E.num('b', 0, 30, real=real)
    pb = E.pick('pb', 2)       # the body ends pb turns into time step b
    x = E.num('x', 0, 30, real=real) if cancel_one else None
    di = E.num('di', 0, 30, real=real) if inner else None     # child of an inner scope
    firing = scope_kind in ('until-date', 'until-set')
    u = E.num('u', 0, 30, real=real) if firing else None      # the until-notification fires at u
    uflag = usim_Flag() if scope_kind == 'until-set' else None
    # children waiting by a plain delay are queued for their date *ahead* of the interrupt that a
    # notification firing at that date sends to the owner; waiting by `time == f` they come behind
    cdirect = E.flag('cdirect') if firing else False
    log = Log()
    S = {}

    async def grandchild(i, date):
        await at_cp(date, 0)
        exc = UserErrA('grandchild of %d' % i)
        log('g%d' % i, 'raise', exc)
        raise exc

    async def child(i):
        log(i, 'start')
        kind = ck[i]
        if kind == CLEANUP:
            # lives until it is closed with its scope; its clean-up then fails
            try:
                await eternity
            finally:
                exc = UserErrB('cleanup of %d' % i)
                log(i, 'raise', exc)
                raise exc
        if kind == NESTED:
            try:
                async with Scope() as inner:
                    inner.do(grandchild(i, f[i]))
            except Concurrent as exc:
                log(i, 'raise', exc)
                raise
            log(i, 'impossible')
            return
        await at_cp(f[i], 0, direct=cdirect)
        if kind == FINISH:
            log(i, 'end')
            return
        exc = make_exc(kind, i)
        log(i, 'raise', exc)
        raise exc

    async def inner_child():
        await (time + di)
        log('in', 'end')

    async def owner():
        outcome = None
        def make_scope():
            if scope_kind == 'until-delay':
                return until(time + 500)          # never reached: must behave like Scope()
            if scope_kind == 'until-date':
                # fires at u: before, in the time step of, or after the failures
                return until(time == u)
            if scope_kind == 'until-set':
                return until(uflag)
            if scope_kind == 'until-flag':
                from usim import Flag
                return until(Flag())
            return Scope()
        try:
            async with make_scope() as scope:
                tasks = [scope.do(child(i), volatile=(ck[i] == CLEANUP)) for i in range(n)]
                S['tasks'] = tasks
                if cancel_one:
                    await at_cp(x, 0)
                    log('own', 'cancel-0')
                    tasks[0].cancel('token')
                if inner:
                    # a scope nested in the same activity, left gracefully (waits for di)
                    async with Scope() as inner_scope:
                        inner_scope.do(inner_child())
                    log('own', 'inner-left')
                await at_cp(b, pb)
                if bk == FINISH:
                    log('own', 'body-end')
                else:
                    exc = UserErr('body') if bk == ERR_A else AssertionError('body')
                    log('own', 'raise', exc)
                    raise exc
        except BaseException as exc:      # noqa
            outcome = exc
        log('own', 'left', outcome)

    async def bystander():
        await (time + 100)
        log('by', 'end')

    async def setter():
        await at_cp(u, 0, direct=True)
        log('set', 'set')
        await uflag.set()

    async def root():
        async with Scope() as top:
            if scope_kind == 'until-set':
                top.do(setter())
            top.do(owner())
            top.do(bystander())

    out = simulate(root(), log=log)
    bad = classify_run_exception(out.exc, allowed=())
    E.prove(bad is None, 'run-ends-normally', bad)
    if out.exc is not None:
        return
    left = log.first('own', 'left')
    if not E.prove(left is not None, 'block-left'):
        return
    outcome, t_left, pos_left = left[3], left[2], log.pos(left)
    before = log.events[:pos_left]
    child_raises = [e for e in before if e[1] == 'raise' and isinstance(e[0], int)]
    body_raise = [e for e in before if e[1] == 'raise' and e[0] == 'own']
    privileged = [e for e in child_raises if isinstance(e[3], PRIVILEGED)]
    # nothing of the children runs after the block
    for ev in log.events[pos_left + 1:]:
        E.prove(ev[0] in ('by', 'set'), 'no-child-code-after-exit', ('%r', ev[:2]))
    if inner and log.has('own', 'inner-left') and not log.has('in', 'end'):
        E.fail('inner-scope-left-before-its-child-ended')
    # exactly one way of ending, with exactly the right content
    if body_raise:
        eb = body_raise[0][3]
        E.reach('body-raised')
        if privileged and not isinstance(eb, PRIVILEGED):
            E.reach('privileged-beats-body')
            E.prove(outcome is privileged[0][3], 'privileged-child-failure-unwrapped',
                    ('outcome %r', outcome))
        elif privileged:
            E.prove(outcome is eb or outcome is privileged[0][3], 'privileged-unwrapped')
        else:
            E.prove(outcome is eb, 'body-exception-propagates-as-itself', ('outcome %r', outcome))
            if child_raises:
                E.reach('body-and-child-failed')
    elif privileged:
        E.reach('privileged')
        E.prove(outcome is privileged[0][3], 'privileged-child-failure-unwrapped',
                ('outcome %r', outcome))
    elif child_raises:
        E.reach('concurrent')
        if E.prove(isinstance(outcome, Concurrent), 'child-failure-raises-Concurrent',
                   ('outcome %r', outcome)):
            got = outcome.children
            want = tuple(e[3] for e in child_raises)
            E.prove(len(got) == len(want) and all(g is w for g, w in zip(got, want)),
                    'Concurrent-carries-exactly-the-child-failures-in-order',
                    ('children %r, raised %r', got, want))
            E.prove(type(outcome) is Concurrent[tuple(type(w) for w in want)],
                    'Concurrent-type-matches-children')
            if len(want) > 1:
                E.reach('simultaneous-failures')
            if any(isinstance(w, Concurrent) for w in want):
                E.reach('nested-concurrent')
    else:
        E.reach('no-failure')
        E.prove(outcome is None, 'no-exception-without-failure', ('outcome %r', outcome))
    if isinstance(outcome, Concurrent):
        for ch in outcome.children:
            E.prove(not isinstance(ch, (TaskCancelled, GeneratorExit)) and
                    not (body_raise and ch is body_raise[0][3]), 'no-foreign-content')
    # promptness: the block ends in the time step of the first failure
    failures = child_raises + body_raise
    if failures:
        first = min(failures, key=log.pos)
        E.prove(EQ(t_left, first[2]), 'abort-in-time-step-of-first-failure',
                ('first failure at %r, block left at %r', first[2], t_left))
        for cr in child_raises:
            if body_raise and log.pos(cr) > log.pos(body_raise[0]) and ck[cr[0]] != CLEANUP:
                E.fail('child-ran-after-body-raised')
        body_end = log.first('own', 'body-end')
        if body_end is not None and log.pos(body_end) < log.pos(first):
            E.reach('failure-during-graceful-shutdown')
        if firing:
            E.reach_if(EQ(u, first[2]), 'failure-in-the-time-step-of-the-notification')
    else:
        last = b
        for i in range(n):
            last = MAX(last, f[i]) if not (cancel_one and i == 0) else last
        if firing:
            E.prove(EQ(t_left, MIN(last, u)), 'exit-at-min(notification,completion)',
                    ('left at %r, notification at %r, all done at %r', t_left, u, last))
            E.reach_if(LT(u, last), 'notification-ends-the-block')
        elif not cancel_one and not inner:
            E.prove(EQ(t_left, last), 'normal-exit-when-all-done')
    by = log.first('by', 'end')
    E.prove(by is not None and EQ(by[2], 100), 'bystander-undisturbed')


K5 = [FINISH, ERR_A, ERR_B, SYS_EXIT, NESTED]
K7 = [FINISH, ERR_A, ERR_B, SYS_EXIT, NESTED, KBD, ASSERTION]
REACH = ['body-raised', 'privileged', 'concurrent', 'no-failure', 'simultaneous-failures',
         'nested-concurrent', 'failure-during-graceful-shutdown', 'privileged-beats-body',
         'body-and-child-failed']

FAMILIES = [
    Family('two', fam_fail,
           quick=dict(n=2, kinds=K5, body_kinds=[FINISH, ERR_A, ASSERTION]),
           thorough=dict(n=2, kinds=K7, body_kinds=[FINISH, ERR_A, ASSERTION]),
           reach=REACH, bounds='2 children'),
    Family('two_cancel', fam_fail,
           quick=dict(n=2, kinds=[FINISH, ERR_A, SYS_EXIT], body_kinds=[FINISH, ERR_A],
                      cancel_one=True),
           thorough=dict(n=2, kinds=K5, body_kinds=[FINISH, ERR_A, ASSERTION], cancel_one=True),
           reach=['concurrent', 'no-failure'], bounds='2 children, child 0 cancelled by the body at x'),
    Family('two_inner', fam_fail,
           quick=dict(n=2, kinds=[FINISH, ERR_A, SYS_EXIT], body_kinds=[FINISH, ERR_A], inner=True),
           thorough=dict(n=2, kinds=K5, body_kinds=[FINISH, ERR_A, ASSERTION], inner=True),
           reach=['concurrent', 'no-failure', 'privileged'],
           bounds='2 children; the body contains a nested scope of the same activity that is '
                  'left gracefully (its child ends at di)'),
    Family('cleanup', fam_fail,
           quick=dict(n=2, kinds=[FINISH, ERR_A, CLEANUP], body_kinds=[FINISH, ERR_A]),
           thorough=dict(n=3, kinds=[FINISH, ERR_A, SYS_EXIT, CLEANUP], body_kinds=[FINISH, ERR_A]),
           reach=['concurrent', 'no-failure'],
           bounds='children may be volatile tasks whose clean-up raises when the scope closes them'),
    Family('two_until', fam_fail,
           quick=dict(n=2, kinds=[FINISH, ERR_A, SYS_EXIT], body_kinds=[FINISH, ERR_A],
                      scope_kind='until-delay'),
           thorough=dict(n=2, kinds=K5, body_kinds=[FINISH, ERR_A, ASSERTION],
                         scope_kind='until-flag'),
           reach=['concurrent', 'no-failure', 'privileged'],
           bounds='the scope is an until-scope whose notification (a far delay / an unset flag) '
                  'does not fire'),
    Family('until_firing', fam_fail,
           quick=dict(n=2, kinds=[FINISH, ERR_A, SYS_EXIT], body_kinds=[FINISH, ERR_A],
                      scope_kind='until-date'),
           thorough=dict(n=2, kinds=K5, body_kinds=[FINISH, ERR_A, ASSERTION],
                         scope_kind='until-date'),
           reach=['concurrent', 'no-failure', 'privileged', 'notification-ends-the-block',
                  'failure-in-the-time-step-of-the-notification'],
           bounds='until(time == u) with a symbolic u: the notification fires before, in the time '
                  'step of (ahead of or behind), or after the failures'),
    Family('until_set', fam_fail,
           quick=dict(n=2, kinds=[FINISH, ERR_A], body_kinds=[FINISH, ERR_A],
                      scope_kind='until-set'),
           thorough=dict(n=2, kinds=K5, body_kinds=[FINISH, ERR_A, ASSERTION],
                         scope_kind='until-set'),
           reach=['concurrent', 'no-failure', 'notification-ends-the-block',
                  'failure-in-the-time-step-of-the-notification'],
           bounds='until(flag), the flag is set at a symbolic date by an activity that runs ahead '
                  'of the children'),
    # the scopes that first() and collect() open for their activities are Scopes like any other;
    # first() additionally suspends / resumes the scope's interrupts around every result it hands
    # out.  The harnesses and oracles are those of C16 (prompt failure as Concurrent[type] at the
    # date of the failure, no activity code afterwards).
    Family('first_scope', _c16.fam_first,
           quick=dict(n=2, fault_kinds=_c16.NOF, counts=[None, 1, 2],
                      consumers=[_c16.PROMPT, _c16.SLOW], failing=True),
           thorough=dict(n=3, fault_kinds=_c16.NOF, counts=[None, 1, 2, 3],
                         consumers=[_c16.PROMPT, _c16.SLOW, _c16.BREAK], failing=True),
           reach=['failure'],
           bounds='the scope inside first(): one of 2 (thorough 3) activities fails at a '
                  'symbolic date, before / in the time step of / after results are handed out'),
    Family('collect_scope', _c16.fam_collect,
           quick=dict(n=3, fault_kinds=_c16.NOF),
           reach=['failure'],
           bounds='the scope inside collect(): one of 3 activities fails at a symbolic date'),
    Family('three', fam_fail,
           thorough=dict(n=3, kinds=[FINISH, ERR_A, SYS_EXIT, NESTED], body_kinds=[FINISH, ERR_A]),
           reach=REACH, bounds='3 children'),
    Family('two_real', fam_fail,
           thorough=dict(n=2, kinds=K5, body_kinds=[FINISH, ERR_A], real=True),
           bounds='2 children, exact rational dates'),
]
