"""
C04  No task outlives its scope (structured concurrency containment).

One scenario generator over the real Scope / InterruptScope / Task code: an owner activity
opens a scope with a non-volatile child A (optionally spawning a late sibling L when it ends),
a non-volatile child B owning a nested scope with grandchild G, and a volatile child V.  The
block is left by one of six causes striking at a symbolic instant (c, p).  Everything the
tasks do is logged by the tasks themselves; the oracle only reads that log.
"""
from usim import time, Scope, until, instant, eternity, Concurrent, Flag
from usim._primitives.context import ScopeClosed

from ..engine import EQ, GE, LE, LT, GT, AND, OR, NOT, IMPLIES, MAX
from ..explore import Family
from ..kit import Log, simulate, now, classify_run_exception, UserErr, at_cp

BOUNDS = ('durations/dates in [0,30]; scope with children A (+late sibling L), B (nested scope '
          'with grandchild G), volatile V; exit causes: normal, body raises, child fails, '
          'until(time==c), until(flag set at (c,p)), owner task cancelled at (c,p), owner closed '
          'by failure of an enclosing scope at (c,p); p in 0..1; optional individual cancel of A')
ASSUMPTIONS = ['children do not suppress CancelTask / GeneratorExit']

NORMAL, BODY_RAISES, CHILD_FAILS, UNTIL_TIME, UNTIL_FLAG, OWNER_CANCELLED, OWNER_CLOSED = range(7)
CAUSE_NAMES = ['normal', 'body-raises', 'child-fails', 'until-time', 'until-flag',
               'owner-cancelled', 'owner-closed']


def fam_scope(E, causes, nested=True, volatile=True, late=True, indiv=False, real=False, pmax=2,
              until_owner=False, inner_same=False):
    cause = causes[E.pick('cause', len(causes))]
    dg2 = E.num('dg2', 0, 30, real=real) if inner_same else None
    b = E.num('b', 0, 30, real=real)          # body duration
    da = E.num('da', 0, 30, real=real)        # child A duration
    dl = E.num('dl', 0, 30, real=real) if late else None
    dg = E.num('dg', 0, 30, real=real) if nested else None
    if cause != NORMAL:
        c = E.num('c', 0, 30, real=real)
        p = E.pick('p', pmax) if cause in (UNTIL_FLAG, OWNER_CANCELLED, OWNER_CLOSED) else 0
    else:
        c, p = None, 0
    x = E.num('x', 0, 30, real=real) if indiv else None     # A individually cancelled at x
    log = Log()
    err = UserErr('cause')
    flag = Flag()
    never = Flag()
    S = {}            # shared handles

    async def late_sibling():
        log('L', 'start')
        await (time + dl)
        log('L', 'end')

    async def child_a(scope):
        log('A', 'start')
        if cause == CHILD_FAILS:
            await at_cp(c, 0)
            log('A', 'raise')
            raise err
        await (time + da)
        if late:
            S['L'] = scope.do(late_sibling())
        log('A', 'end')

    async def grandchild():
        log('G', 'start')
        await (time + dg)
        log('G', 'end')

    async def grandchild2():
        log('G2', 'start')
        await (time + dg2)
        log('G2', 'end')

    async def child_b():
        log('B', 'start')
        try:
            async with Scope() as inner:
                S['G'] = inner.do(grandchild())
        finally:
            log('B', 'inner-left', bool(S['G'].done) if 'G' in S else None)
        log('B', 'end')

    async def cleanup_spawn():
        log('X', 'ran')
        await (time + 1)
        log('X', 'ran-on')

    async def child_v():
        log('V', 'start')
        try:
            await eternity
        finally:
            log('V', 'closed')
            # clean-up code that tries to spawn into the scope that is closing it
            payload = cleanup_spawn()
            try:
                S['scope'].do(payload)
                log('V', 'cleanup-do-accepted')
            except ScopeClosed:
                log('V', 'cleanup-do-refused', payload.cr_frame is None)

    async def orphan():
        log('O', 'ran')

    async def owner():
        log('own', 'enter')
        if cause == UNTIL_TIME:
            scope = until(time == c)
        elif cause == UNTIL_FLAG:
            scope = until(flag)
        elif until_owner:
            # an until-scope whose notification never fires: left by the other causes only
            scope = until(never)
        else:
            scope = Scope()
        S['scope'] = scope
        try:
            try:
                async with scope:
                    S['A'] = scope.do(child_a(scope))
                    if nested:
                        S['B'] = scope.do(child_b())
                    if volatile:
                        S['V'] = scope.do(child_v(), volatile=True)
                    if indiv:
                        await at_cp(x, 0)
                        log('own', 'cancel-A', S['A']._result is None)
                        S['A'].cancel()
                    if cause == BODY_RAISES:
                        await at_cp(c, 0)
                        log('own', 'raise')
                        raise err
                    if inner_same:
                        # a second scope nested in the same activity: the body waits inside it
                        async with Scope() as inner2:
                            S['G2'] = inner2.do(grandchild2())
                            await (time + b)
                        log('own', 'inner-exit-normal', bool(S['G2'].done), log.has('G2', 'end'))
                    else:
                        await (time + b)
                    log('own', 'body-end')
            finally:
                log('own', 'left', tuple(bool(S[k].done) for k in ('A', 'B', 'V', 'L', 'G')
                                         if k in S))
                # a scope that has ended refuses new tasks and discards the payload
                payload = orphan()
                try:
                    scope.do(payload)
                    log('own', 'late-do-accepted')
                except ScopeClosed:
                    log('own', 'late-do-refused', payload.cr_frame is None)
                except BaseException as exc:     # noqa
                    log('own', 'late-do-other', exc)
        except UserErr as exc:
            log('own', 'caught-own', exc is err)
        except Concurrent as exc:
            log('own', 'caught-concurrent', exc.children == (err,))
        log('own', 'after')

    async def setter():
        await at_cp(c, p)
        log('set', 'flag')
        await flag.set()

    async def killer():
        await at_cp(c, p)
        log('kill', 'cancel-owner', bool(S['owner'].done))
        S['owner'].cancel()

    async def enclosing():
        try:
            async with Scope() as enc:
                S['owner'] = enc.do(owner())
                await at_cp(c, p)
                log('enc', 'raise')
                raise err
        except UserErr:
            log('enc', 'caught')

    async def bystander():
        await (time + 100)
        log('by', 'end')

    async def root():
        async with Scope() as top:
            if cause == OWNER_CLOSED:
                top.do(enclosing())
            else:
                S['owner'] = top.do(owner())
            if cause == UNTIL_FLAG:
                top.do(setter())
            if cause == OWNER_CANCELLED:
                top.do(killer())
            top.do(bystander())

    out = simulate(root(), log=log)
    bad = classify_run_exception(out.exc, allowed=())
    E.prove(bad is None, 'run-ends-normally', bad)
    if out.exc is not None:
        return
    E.reach(CAUSE_NAMES[cause])
    left = log.first('own', 'left')
    if log.first('own', 'enter') is None:
        # the owner was closed before it ever started: there never was a block
        E.reach('owner-never-started')
        E.prove(cause == OWNER_CLOSED and not log.of('own') and
                not any(log.of(m) for m in 'ABVLG'), 'unstarted-owner-runs-no-code')
        return
    if not E.prove(left is not None, 'block-left'):
        return
    pos_left = log.pos(left)
    t_left = left[2]
    members = ('A', 'B', 'V', 'L', 'G', 'X', 'G2')
    ien = log.first('own', 'inner-exit-normal')
    if ien is not None:
        # the inner block was left without an exception = a normal exit of that scope
        E.reach('inner-normal-exit')
        E.prove(ien[3] is True and ien[4] is True, 'normal-exit-waits-for-every-child',
                ('inner scope of the same activity left normally at %r: child done %r, ran to '
                 'its end %r', ien[2], ien[3], ien[4]))
    # 1. nothing of the scope's tasks or their descendants runs after the block was left
    for ev in log.events[pos_left + 1:]:
        E.prove(ev[0] not in members, 'no-child-code-after-exit',
                ('%s logged %s at %r after the block was left at %r', ev[0], ev[1], ev[2], t_left))
    # 2. every task is done right after the block
    E.prove(all(left[3]), 'all-tasks-done-at-exit', ('done flags %r', left[3]))
    # 3. refusal of late spawns
    refused = log.first('own', 'late-do-refused')
    E.prove(refused is not None, 'late-do-refused')
    if refused is not None:
        E.prove(refused[3] is True, 'late-payload-closed')
    E.prove(not log.has('O', 'ran'), 'late-payload-never-runs')
    if log.has('V', 'closed'):
        E.prove(log.has('V', 'cleanup-do-refused') and not log.has('X', 'ran'),
                'spawn-from-cleanup-of-closed-child-refused')
    # 4. the trigger of the exit, as logged by the program
    a_cancelled = log.first('own', 'cancel-A')
    a_end, l_end, g_end = log.first('A', 'end'), log.first('L', 'end'), log.first('G', 'end')
    body_end = log.first('own', 'body-end')
    abort = None
    for who, what in (('own', 'raise'), ('A', 'raise'), ('set', 'flag'), ('kill', 'cancel-owner'),
                      ('enc', 'raise')):
        ev = log.first(who, what)
        if ev is not None and log.pos(ev) < pos_left:
            abort = ev if abort is None or log.pos(ev) < log.pos(abort) else abort
    graceful = body_end is not None and abort is None and cause != UNTIL_TIME
    if cause == UNTIL_TIME:
        # decided by the clock: T = completion instant of body and all non-volatile tasks
        T = MAX(b, (da + dl) if late else da)
        if nested:
            T = MAX(T, dg)
        if inner_same:
            T = MAX(T, dg2)     # the body itself waits for the child of its inner scope
        if indiv:
            graceful = False        # containment obligations only
        elif LT(T, c):
            graceful = True
        elif GT(T, c):
            graceful = False
            E.reach('until-time-aborts')
            E.prove(EQ(t_left, c), 'abort-in-same-time-step',
                    ('until(time == %r) left at %r', c, t_left))
        else:
            graceful = False        # trigger and completion coincide: either order
            E.prove(EQ(t_left, c), 'abort-in-same-time-step')
    if graceful:
        E.reach('graceful')
        # every non-volatile child ran to completion (unless individually cancelled) ...
        if a_cancelled is None or not a_cancelled[3]:
            E.prove(a_end is not None, 'A-completes-on-normal-exit')
        if a_end is not None and late:
            E.reach('late-spawn')
            E.prove(l_end is not None, 'late-sibling-awaited')
        if nested:
            E.prove(g_end is not None and log.has('B', 'end'), 'nested-subtree-completes')
        # ... and the block ends exactly with the last of them
        last = body_end[2]
        for ev in (a_end, l_end, g_end):
            if ev is not None:
                last = MAX(last, ev[2])
        E.prove(EQ(t_left, last), 'exit-when-last-child-ends',
                ('left at %r, last completion %r', t_left, last))
        if volatile:
            vc = log.first('V', 'closed')
            if E.prove(vc is not None, 'volatile-closed'):
                E.prove(EQ(vc[2], last), 'volatile-closed-only-after-nonvolatile-finished',
                        ('volatile closed at %r, last non-volatile completion %r', vc[2], last))
                for ev in (a_end, l_end, g_end):
                    if ev is not None:
                        E.prove(log.pos(ev) < log.pos(vc), 'volatile-closed-last')
    elif abort is not None:
        E.reach('aborted')
        # the abort takes effect in the time step of its cause
        E.prove(EQ(t_left, abort[2]), 'abort-in-same-time-step',
                ('cause at %r, block left at %r', abort[2], t_left))
    # grandchild containment for the nested scope
    il = log.first('B', 'inner-left')
    if il is not None:
        E.prove(il[3] is True, 'grandchild-done-when-inner-left')
        for ev in log.events[log.pos(il) + 1:]:
            E.prove(ev[0] != 'G', 'no-grandchild-code-after-inner-exit')
    # the rest of the program is undisturbed
    by = log.first('by', 'end')
    E.prove(by is not None and EQ(by[2], 100), 'bystander-undisturbed')


ALL = [NORMAL, BODY_RAISES, CHILD_FAILS, UNTIL_TIME, UNTIL_FLAG, OWNER_CANCELLED, OWNER_CLOSED]

FAMILIES = [
    Family('flat', fam_scope,
           quick=dict(causes=ALL, nested=False, late=True),
           thorough=dict(causes=ALL, nested=False, late=True, indiv=True, pmax=3),
           reach=CAUSE_NAMES + ['graceful', 'aborted', 'late-spawn'],
           bounds='children A(+L), V; all 7 causes'),
    Family('flat_indiv', fam_scope,
           quick=dict(causes=[NORMAL, BODY_RAISES, UNTIL_TIME, OWNER_CLOSED], nested=False,
                      late=False, indiv=True),
           reach=['graceful', 'aborted'],
           bounds='child A individually cancelled by the body at x (also in the very step in '
                  'which the block is left)'),
    Family('until_owner', fam_scope,
           quick=dict(causes=[NORMAL, BODY_RAISES, CHILD_FAILS, OWNER_CANCELLED, OWNER_CLOSED],
                      nested=False, late=False, until_owner=True),
           reach=['graceful', 'aborted'],
           bounds='the scope is an until-scope on a notification that never fires'),
    Family('inner_same', fam_scope,
           quick=dict(causes=[NORMAL, CHILD_FAILS, UNTIL_TIME, UNTIL_FLAG, OWNER_CANCELLED],
                      nested=False, late=False, inner_same=True),
           thorough=dict(causes=ALL, nested=False, late=True, inner_same=True),
           reach=['graceful', 'aborted', 'inner-normal-exit'],
           bounds='the body opens a second scope in the same activity (child G2) and waits inside '
                  'it while the exit cause strikes the outer scope'),
    Family('nested', fam_scope,
           quick=dict(causes=[NORMAL, CHILD_FAILS, UNTIL_TIME, OWNER_CANCELLED, OWNER_CLOSED],
                      nested=True, late=False),
           thorough=dict(causes=ALL, nested=True, late=True),
           reach=['graceful', 'aborted'],
           bounds='children A, B{G}, V'),
    Family('nested_real', fam_scope,
           thorough=dict(causes=ALL, nested=True, late=False, real=True),
           bounds='as nested, exact rational dates'),
]


def fam_shutdown_spawn(E, real=False):
    """a task spawned into a scope *while it shuts down gracefully*: a helper waits for the end
    of the scope's body (`await scope`) and then adds a further child.  The scope has a regular
    child A or none at all when its body ends; the helper is a volatile child of the scope or a
    foreign task that merely holds the scope object.  The late child is a child like any other:
    the block ends only when it is done."""
    b = E.num('b', 0, 20, real=real)
    has_a = E.flag('has_a')
    da = E.num('da', 0, 30, real=real) if has_a else None
    dl = E.num('dl', 0, 20, real=real)
    foreign = E.flag('foreign')
    use_until = E.flag('until')
    log = Log()
    S = {}
    never = Flag()

    async def late():
        log('L', 'start')
        await (time + dl)
        log('L', 'end')

    async def child_a():
        log('A', 'start')
        await (time + da)
        log('A', 'end')

    async def helper():
        while 'scope' not in S:
            await instant
        await S['scope']
        log('H', 'body-done-seen')
        payload = late()
        try:
            S['L'] = S['scope'].do(payload)
            log('H', 'accepted')
        except ScopeClosed:
            log('H', 'refused', payload.cr_frame is None)
        await eternity

    async def owner():
        scope = until(never) if use_until else Scope()
        async with scope:
            S['scope'] = scope
            if has_a:
                scope.do(child_a())
            if not foreign:
                scope.do(helper(), volatile=True)
            await (time + b)
            log('own', 'body-end')
        log('own', 'left', bool(S['L'].done) if 'L' in S else None)

    async def root():
        async with Scope() as top:
            top.do(owner())
            if foreign:
                top.do(helper(), volatile=True)

    out = simulate(root(), log=log)
    bad = classify_run_exception(out.exc, allowed=())
    E.prove(bad is None, 'run-ends-normally', bad)
    if out.exc is not None:
        return
    left = log.first('own', 'left')
    if not E.prove(left is not None, 'block-left'):
        return
    for ev in log.events[log.pos(left) + 1:]:
        E.prove(ev[0] not in ('L', 'A'), 'no-task-code-after-exit', ('%r', ev[:2]))
    if log.has('H', 'accepted'):
        E.reach('spawned-during-shutdown')
        le = log.first('L', 'end')
        E.prove(le is not None and log.pos(le) < log.pos(left), 'late-child-awaited',
                ('the child accepted during the shutdown did not run to its end before the '
                 'block was left at %r', left[2]))
        E.prove(left[3] is True, 'all-tasks-done-after-exit')
        want = MAX(b + dl, da) if has_a else b + dl
        E.prove(EQ(left[2], want), 'exit-when-last-child-done',
                ('left at %r, expected %r', left[2], want))
        E.reach_if(True if not has_a else LE(da, b), 'no-regular-child-left-when-the-body-ends')
    else:
        rf = log.first('H', 'refused')
        if rf is not None:
            E.prove(rf[3] is True, 'refused-payload-closed')
        E.prove(not log.has('L', 'start'), 'refused-payload-never-runs')


FAMILIES.append(
    Family('shutdown_spawn', fam_shutdown_spawn, quick=dict(), thorough=dict(real=True),
           reach=['spawned-during-shutdown', 'no-regular-child-left-when-the-body-ends'],
           bounds='Scope / until-scope whose body ends at b in [0,20] with one regular child '
                  '(duration in [0,30]) or none; a volatile helper / a foreign task reacts to '
                  '`await scope` by spawning a child of duration in [0,20]'))
