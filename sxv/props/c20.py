"""
C20  Every awaitable operation yields to the other runnable activities at least once.

For each operation of the public API, in each state in which it can complete without waiting
(flag already set, item buffered, resources available, zero volume, period 0, empty scope, ...),
fresh spinner activities are made runnable immediately before the operation; the operation must
not complete before every spinner had a turn, unless the clock advanced.  Numeric arguments are
symbolic (dates at / before now, amounts 0..available, volumes >= 0, periods >= 0).
Only operations that complete successfully are judged.
"""
from fractions import Fraction

from usim import (time, Scope, until, instant, Flag, Tracked, Queue, Channel, Resources,
                  Capacities, Pipe, UnboundedPipe, interval, delay, first, collect, Lock)

from ..engine import EQ, GE, LE, LT, GT, AND, OR, NOT, IMPLIES
from ..explore import Family
from ..kit import Log, simulate, now, classify_run_exception, STATE

BOUNDS = ('one operation per path out of the table OPS (about 60 operation x state entries), '
          'numeric arguments symbolic: dates in [now-10, now], amounts in [0, available], '
          'volumes in [0,5], periods in [0,5]; 2 spinners made runnable right before each step')
ASSUMPTIONS = ['operations that end by raising their documented exception (StreamClosed, '
               'ResourcesUnavailable, usage errors) are not judged']


class Ctx:
    """per path state shared by the operation tables"""

    def __init__(self, E, log):
        self.E, self.log = E, log
        self.scope = None
        self.nstep = 0

    async def step(self, name, awaitable):
        """run one awaitable operation next to freshly runnable spinners"""
        k = self.nstep
        self.nstep += 1
        for i in range(2):
            self.scope.do(self.spinner(k, i), volatile=True)
        loop = STATE.loop
        self.log('op', 'start', k, name)
        try:
            result = await awaitable
        except BaseException as exc:      # noqa
            self.log('op', 'raised', k, type(exc).__name__)
            raise
        self.log('op', 'done', k, name)
        return result

    async def spinner(self, k, i):
        for _ in range(3):
            self.log('spin', 'turn', k, i)
            await instant


async def _noop():
    return 'value'


async def _sleeper(d):
    await (time + d)
    return 'value'


def OPS(c):
    """name -> coroutine function(ctx) performing setup + judged step(s)"""
    E = c.E
    ops = {}

    def op(name):
        def deco(fn):
            ops[name] = fn
            return fn
        return deco

    # ---- time
    @op('await instant')
    async def _(c):
        await c.step('instant', instant)

    @op('await time+0')
    async def _(c):
        await c.step('time+0', time + 0)

    @op('await time>=past')
    async def _(c):
        t = E.int('t', -10, 5)
        E.assume(LE(t, now()))
        await c.step('time>=t', time >= t)

    @op('await time<future')
    async def _(c):
        t = E.int('t', 6, 20)
        await c.step('time<t', time < t)

    @op('await time==now')
    async def _(c):
        await c.step('time==now', time == now())

    @op('await time+d')
    async def _(c):
        d = E.int('d', 0, 5)
        await c.step('time+d', time + d)

    @op('after interrupted postponement')
    async def _(c):
        f = Flag()
        await f.set()
        async with until(f):          # already true: the interrupt strikes the postponement
            await instant
        await c.step('instant after an interrupted postponement', instant)
        async with until(f):
            await f.set()
        await c.step('flag.set after an interrupted postponement', f.set())

    # ---- flags / conditions
    @op('await set flag')
    async def _(c):
        f = Flag()
        await f.set()
        await c.step('flag', f)

    @op('await ~unset flag')
    async def _(c):
        f = Flag()
        await c.step('~flag', ~f)

    @op('await true conjunction')
    async def _(c):
        f, g = Flag(), Flag()
        await f.set()
        await g.set()
        await c.step('f&g', f & g)

    @op('await true disjunction')
    async def _(c):
        f, g = Flag(), Flag()
        await f.set()
        await c.step('f|g', f | g)

    @op('await true comparison')
    async def _(c):
        v = E.int('v', -5, 5)
        x = E.int('x', -5, 5)
        E.assume(GE(v, x))
        tr = Tracked(v)
        await c.step('tracked>=x', tr >= x)

    @op('flag.set')
    async def _(c):
        f = Flag()
        await c.step('flag.set(True)', f.set())
        await c.step('flag.set(True) again', f.set())
        await c.step('flag.set(False)', f.set(False))
        await c.step('(~flag).set(False)', (~f).set(False))

    @op('tracked.set')
    async def _(c):
        v = E.int('v', -5, 5)
        w = E.int('w', -5, 5)
        tr = Tracked(v)
        await c.step('tracked.set(w)', tr.set(w))
        await c.step('tracked + w', tr + w)
        await c.step('tracked - 0', tr - 0)

    # ---- tasks and scopes
    @op('await done task')
    async def _(c):
        t = c.scope.do(_noop())
        await t.done
        await c.step('task (done)', t)
        await c.step('task.done (done)', t.done)
        await c.step('task (done) again', t)

    @op('await running task')
    async def _(c):
        t = c.scope.do(_sleeper(E.int('d', 0, 5)))
        await c.step('task', t)

    @op('await cancelled task')
    async def _(c):
        t = c.scope.do(_sleeper(3))
        t.cancel()
        try:
            await c.step('cancelled task', t)
        except BaseException:       # noqa: TaskCancelled is the documented outcome
            pass
        await c.step('cancelled task.done', t.done)

    @op('await finished scope')
    async def _(c):
        async with Scope() as s:
            pass
        await c.step('scope (finished)', s)

    @op('leave empty scope')
    async def _(c):
        s = Scope()
        await s.__aenter__()
        await c.step('Scope.__aexit__ (no children)', s.__aexit__(None, None, None))

    @op('leave scope with finished child')
    async def _(c):
        s = Scope()
        await s.__aenter__()
        t = s.do(_noop())
        await t.done
        await c.step('Scope.__aexit__ (child done)', s.__aexit__(None, None, None))

    @op('leave until scope')
    async def _(c):
        f = Flag()
        s = until(f)
        await s.__aenter__()
        await c.step('until.__aexit__ (no children)', s.__aexit__(None, None, None))

    # ---- streams
    @op('queue')
    async def _(c):
        q = Queue()
        await c.step('queue.put', q.put(1))
        await c.step('queue.put 2', q.put(2))
        await c.step('await queue (buffered)', q)
        it = q.__aiter__()
        await c.step('async for queue step (buffered)', it.__anext__())
        await c.step('queue.close', q.close())
        await c.step('queue.close again', q.close())

    @op('queue closed with buffer')
    async def _(c):
        q = Queue()
        await q.put(1)
        await q.close()
        await c.step('await closed queue (buffered)', q)

    @op('channel')
    async def _(c):
        ch = Channel()
        await c.step('channel.put (no consumer)', ch.put(1))
        await c.step('channel.close', ch.close())
        await c.step('channel.close again', ch.close())

    @op('channel iteration')
    async def _(c):
        ch = Channel()
        it = ch.__aiter__()

        async def feeder():
            await ch.put(1)
            await ch.put(2)
            await ch.close()
        c.scope.do(feeder())
        await c.step('async for channel step 1', it.__anext__())
        await c.step('async for channel step 2 (buffered)', it.__anext__())

    # ---- resources
    def supplies():
        cap = E.int('cap', 0, 5)
        kind = E.pick('supply', 2)
        return (Resources if kind == 0 else Capacities)(0, x=cap), cap

    @op('borrow')
    async def _(c):
        res, cap = supplies()
        a = E.int('a', 0, 5)
        E.assume(LE(a, cap))
        ctx = res.borrow(x=a)
        share = await c.step('borrow.__aenter__', ctx.__aenter__())
        b = E.int('b', 0, 5)
        E.assume(LE(b, a))
        inner = share.borrow(x=b)
        await c.step('nested borrow.__aenter__', inner.__aenter__())
        await c.step('nested borrow.__aexit__', inner.__aexit__(None, None, None))
        await c.step('borrow.__aexit__', ctx.__aexit__(None, None, None))

    @op('claim')
    async def _(c):
        res, cap = supplies()
        a = E.int('a', 0, 5)
        E.assume(LE(a, cap))
        ctx = res.claim(x=a)
        await c.step('claim.__aenter__', ctx.__aenter__())
        await c.step('claim.__aexit__', ctx.__aexit__(None, None, None))

    @op('resources.modify')
    async def _(c):
        cap = E.int('cap', 0, 5)
        res = Resources(0, x=cap)
        a = E.int('a', 0, 5)
        await c.step('increase', res.increase(x=a))
        await c.step('decrease', res.decrease(x=a))
        await c.step('set', res.set(x=a))
        await c.step('set same', res.set(x=a))

    # ---- pipes
    @op('pipe')
    async def _(c):
        pipe = Pipe(throughput=E.const(Fraction(2)))
        v = E.real('v', 0, 5)
        await c.step('pipe.transfer(v)', pipe.transfer(v))
        await c.step('pipe.transfer(v, limit)', pipe.transfer(v, throughput=E.const(Fraction(1))))
        await c.step('pipe.transfer(0)', pipe.transfer(0))

    @op('infinite pipe')
    async def _(c):
        pipe = Pipe(throughput=float('inf'))
        v = E.real('v', 0, 5)
        await c.step('Pipe(inf).transfer(v)', pipe.transfer(v))
        await c.step('Pipe(inf).transfer(0)', pipe.transfer(0))

    @op('unbounded pipe')
    async def _(c):
        pipe = UnboundedPipe()
        v = E.real('v', 0, 5)
        await c.step('unbounded.transfer(v)', pipe.transfer(v))
        await c.step('unbounded.transfer(v, limit)', pipe.transfer(v, throughput=E.const(Fraction(1))))
        await c.step('unbounded.transfer(0)', pipe.transfer(0))

    # ---- iteration through time
    @op('interval')
    async def _(c):
        p = E.int('p', 0, 5)
        b = E.int('b', 0, 5)
        E.assume(LE(b, p))
        it = interval(p).__aiter__()
        await c.step('interval step 1', it.__anext__())
        await (time + b)
        await c.step('interval step 2', it.__anext__())
        await c.step('interval step 3 (no body time)', it.__anext__())

    @op('delay')
    async def _(c):
        p = E.int('p', 0, 5)
        it = delay(p).__aiter__()
        await c.step('delay step 1', it.__anext__())
        await c.step('delay step 2', it.__anext__())

    # ---- concurrent helpers
    @op('collect')
    async def _(c):
        await c.step('collect()', collect())
        await c.step('collect(noop)', collect(_noop()))
        await c.step('collect(noop, sleeper)', collect(_noop(), _sleeper(E.int('d', 0, 5))))

    @op('first')
    async def _(c):
        it = first(_noop(), _noop(), count=2).__aiter__()
        await c.step('first step 1', it.__anext__())
        await c.step('first step 2', it.__anext__())
        try:
            await c.step('first end', it.__anext__())
        except StopAsyncIteration:
            pass

    @op('first count 0')
    async def _(c):
        it = first(_noop(), count=0).__aiter__()
        try:
            await c.step('first(count=0) end', it.__anext__())
        except StopAsyncIteration:
            pass

    return ops




def op_names():
    class Dummy:
        E = None
    return sorted(OPS(Dummy()).keys())


def fam_ops(E, names):
    name = names[E.pick('op', len(names))]
    log = Log()
    c = Ctx(E, log)
    table = OPS(c)

    async def main():
        async with Scope() as scope:
            c.scope = scope
            await (time + 5)
            await table[name](c)

    out = simulate(main(), log=log)
    bad = classify_run_exception(out.exc, allowed=())
    E.prove(bad is None, 'run-ends-normally', bad)
    if out.exc is not None:
        return
    E.reach(name)
    starts = [e for e in log.events if e[0] == 'op' and e[1] == 'start']
    E.prove(len(starts) > 0, 'operation-ran')
    for st in starts:
        k = st[3]
        dn = [e for e in log.events if e[0] == 'op' and e[1] == 'done' and e[3] == k]
        if not dn:
            continue            # ended by raising: not judged
        dn = dn[0]
        between = log.events[log.pos(st) + 1:log.pos(dn)]
        turned = set(e[4] for e in between if e[0] == 'spin' and e[3] == k)
        E.prove(OR(GT(dn[2], st[2]), len(turned) == 2), 'operation-yields-to-runnable-activities',
                ('%s started and completed at %r, spinners that ran in between: %r',
                 st[4], st[2], sorted(turned)))


ALL = op_names()
FAMILIES = [
    Family('ops', fam_ops,
           quick=dict(names=ALL),
           thorough=dict(names=ALL),
           reach=ALL,
           bounds='every entry of the operation table'),
]
