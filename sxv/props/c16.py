"""
C16  collect()/first() give the right results at the right time and abort the rest.

n activities with symbolic durations (ties and zero included), one of them optionally failing;
collect(), or first(count=k) with k in 0..n+1 or None and a consumer that is prompt, slow
(sleeps s after each result) or breaks after j results; optionally the caller is cancelled /
interrupted / closed at a symbolic instant (c,p).  Activities log their own start and end.
"""
from usim import time, Scope, instant, first, collect, Concurrent

from ..engine import EQ, GE, LE, LT, GT, AND, OR, NOT, IMPLIES, MAX, MIN
from ..explore import Family
from ..kit import Log, simulate, now, classify_run_exception, Fault, UserErr, Payload

BOUNDS = ('n<=3 activities, durations in [0,30]; optional failure of one activity at its date; '
          'first: count in {None, 0..n+1}, consumer prompt / slow (s in [0,20]) / break after '
          'j<=n; fault cancel/interrupt/close on the caller at (c,p), p<=1, both placements')
ASSUMPTIONS = ['order of simultaneous completions is taken from the log the activities write '
               '(the oracle does not predict the tie order, C02 does)']


def fam_collect(E, n, fault_kinds, failing=True, real=False, pmax=2):
    d = [E.num('d%d' % i, 0, 30, real=real) for i in range(n)]
    bad = (E.pick('failing', n + 1) - 1) if failing else -1     # -1: nobody fails
    fault = Fault(E, 'f', fault_kinds, hi=30, pmax=pmax, real=real)
    log = Log()
    err = UserErr('activity failed')

    async def act(i):
        log(i, 'start')
        await (time + d[i])
        log(i, 'end')
        if i == bad:
            raise err
        return Payload(('value', i))    # results of even-numbered activities are falsy

    def caller():
        async def run():
            log('c', 'call')
            try:
                res = await collect(*[act(i) for i in range(n)])
                log('c', 'result', tuple(res))
            except Concurrent as exc:
                log('c', 'concurrent', exc)
            except BaseException:
                log('c', 'removed')      # cancel / interrupt / close has been delivered
                raise
            log('c', 'after')
        return run

    async def bystander():
        await (time + 100)
        log('by', 'end')

    async def root():
        async with Scope() as top:
            fault.spawn(top, caller(), log)
            top.do(bystander())

    out = simulate(root(), log=log)
    why = classify_run_exception(out.exc, allowed=())
    E.prove(why is None, 'run-ends-normally', why)
    if out.exc is not None:
        return
    E.reach(Fault.NAMES[fault.kind])
    f = log.first('f', 'fault')
    res, conc, aft = log.first('c', 'result'), log.first('c', 'concurrent'), log.first('c', 'after')
    call = log.first('c', 'call')
    hit = log.first('c', 'removed')
    if call is None:
        E.prove(fault.kind != Fault.NONE and not any(log.of(i) for i in range(n)),
                'no-activity-runs-if-caller-never-started')
        return
    if hit:
        E.reach('caller-hit')
        # the caller was removed while collecting: nothing of the activities runs afterwards
        E.prove(EQ(hit[2], f[2]), 'fault-delivered-in-its-time-step')
        for ev in log.events[log.pos(hit) + 1:]:
            E.prove(ev[0] not in range(n), 'no-activity-code-after-caller-was-removed',
                    ('%r %r at %r after the caller was removed at %r', ev[0], ev[1], ev[2], hit[2]))
        return
    if bad >= 0:
        E.reach('failure')
        if E.prove(conc is not None and res is None, 'failure-is-raised'):
            E.prove(conc[3].children == (err,) and isinstance(conc[3], Concurrent[UserErr]),
                    'failure-raised-as-Concurrent-of-it')
            E.prove(EQ(conc[2], d[bad]), 'failure-raised-at-failure-time',
                    ('failed at %r, raised at %r', d[bad], conc[2]))
            for ev in log.events[log.pos(conc) + 1:]:
                E.prove(ev[0] not in range(n), 'others-aborted-at-failure')
            for i in range(n):
                if i != bad and log.has(i, 'end'):
                    E.prove(LE(log.first(i, 'end')[2], d[bad]), 'no-activity-outlives-failure')
    else:
        if E.prove(res is not None and conc is None, 'collect-returns'):
            E.prove(res[3] == tuple(('value', i) for i in range(n)), 'results-in-argument-order',
                    ('%r', res[3]))
            last = d[0]
            for x in d[1:]:
                last = MAX(last, x)
            E.prove(EQ(res[2], last), 'returns-when-slowest-finishes',
                    ('slowest at %r, returned at %r', last, res[2]))
    by = log.first('by', 'end')
    E.prove(by is not None and EQ(by[2], 100), 'bystander-undisturbed')


PROMPT, SLOW, BREAK = range(3)


def fam_first(E, n, fault_kinds, counts, consumers, failing=False, real=False, pmax=2):
    d = [E.num('d%d' % i, 0, 30, real=real) for i in range(n)]
    count = counts[E.pick('count', len(counts))]
    mode = consumers[E.pick('consumer', len(consumers))]
    s = E.num('s', 0, 20, real=real) if mode == SLOW else None
    j = E.pick('j', n) + 1 if mode == BREAK else None
    bad = (E.pick('failing', n + 1) - 1) if failing else -1
    fault = Fault(E, 'f', fault_kinds, hi=30, pmax=pmax, real=real)
    log = Log()
    err = UserErr('activity failed')

    async def act(i):
        log(i, 'start')
        await (time + d[i])
        log(i, 'end')
        if i == bad:
            raise err
        return Payload(('value', i))    # results of even-numbered activities are falsy

    def caller():
        async def run():
            log('c', 'call')
            k = 0
            try:
                async for winner in first(*[act(i) for i in range(n)], count=count):
                    log('c', 'got', winner)
                    k += 1
                    if mode == BREAK and k == j:
                        break
                    if mode == SLOW:
                        await (time + s)
                log('c', 'stopped')
            except ValueError:
                log('c', 'value-error')
            except Concurrent as exc:
                log('c', 'concurrent', exc)
            except BaseException:
                log('c', 'removed')      # cancel / interrupt / close has been delivered
                raise
            await instant
            log('c', 'after')
        return run

    async def bystander():
        await (time + 100)
        log('by', 'end')

    async def root():
        async with Scope() as top:
            fault.spawn(top, caller(), log)
            top.do(bystander())

    out = simulate(root(), log=log)
    why = classify_run_exception(out.exc, allowed=())
    E.prove(why is None, 'run-ends-normally', why)
    if out.exc is not None:
        return
    E.reach(Fault.NAMES[fault.kind])
    call, aft = log.first('c', 'call'), log.first('c', 'after')
    f = log.first('f', 'fault')
    if call is None:
        E.prove(fault.kind != Fault.NONE and not any(log.of(i) for i in range(n)),
                'no-activity-runs-if-caller-never-started')
        return
    got = log.of('c', 'got')
    ends = [e for e in log.events if e[1] == 'end' and e[0] in range(n)]
    k_eff = n if count is None else count
    if k_eff > n:
        E.reach('count-too-big')
        E.prove(log.has('c', 'value-error') and not got, 'ValueError-when-count-exceeds-activities')
        E.prove(not any(log.of(i) for i in range(n)), 'nothing-started-on-ValueError')
        return
    # results are yielded in the order in which they became available (order of the 'end' logs)
    avail = [e for e in ends if e[0] != bad]
    E.prove([g[3] for g in got] == [('value', e[0]) for e in avail[:len(got)]],
            'yields-in-order-of-availability',
            ('yielded %r, completions %r', [g[3] for g in got], [e[0] for e in avail]))
    hit = log.first('c', 'removed')
    conc = log.first('c', 'concurrent')
    stop = log.first('c', 'stopped')
    limit = k_eff if mode != BREAK else min(k_eff, j)
    if hit:
        E.reach('caller-hit')
        E.prove(len(got) <= limit, 'never-more-than-count')
        E.prove(EQ(hit[2], f[2]), 'fault-delivered-in-its-time-step')
        for ev in log.events[log.pos(hit) + 1:]:
            E.prove(ev[0] not in range(n), 'no-activity-code-after-caller-was-removed',
                    ('%r %r at %r after the caller was removed at %r', ev[0], ev[1], ev[2], hit[2]))
    elif conc is not None:
        E.reach('failure')
        E.prove(bad >= 0 and conc[3].children == (err,), 'only-real-failures-are-raised')
        for ev in log.events[log.pos(conc) + 1:]:
            E.prove(ev[0] not in range(n), 'others-aborted-at-failure')
    else:
        if bad >= 0 and not stop:
            E.fail('failure-or-stop-expected')
        if E.prove(stop is not None, 'iteration-stops'):
            if not (bad >= 0):
                E.prove(len(got) == limit, 'stops-after-count-results',
                        ('count %r, consumer limit %r: got %d', count, limit, len(got)))
            # nothing of the losers runs after the iteration was left
            for ev in log.events[log.pos(stop) + 1:]:
                E.prove(ev[0] not in range(n), 'losers-aborted-when-iteration-ends',
                        ('%r %r at %r after first() ended at %r', ev[0], ev[1], ev[2], stop[2]))
            if limit == 0:
                E.reach('count-zero')
        # prompt consumer: each result is yielded at the time its activity finished
        if mode != SLOW:
            for g in got:
                i = g[3][1]
                E.prove(EQ(g[2], d[i]), 'yielded-when-available',
                        ('activity %d finished at %r, yielded at %r', i, d[i], g[2]))
        else:
            E.reach('slow-consumer')
            prev = None
            for g in got:
                i = g[3][1]
                want = d[i] if prev is None else MAX(d[i], prev + s)
                E.prove(EQ(g[2], want), 'slow-consumer-gets-result-when-ready-and-asking',
                        ('activity %d finished at %r, consumer asked at %r, got it at %r',
                         i, d[i], prev, g[2]))
                prev = g[2]
    by = log.first('by', 'end')
    E.prove(by is not None and EQ(by[2], 100), 'bystander-undisturbed')


NOF = [Fault.NONE]
ALLF = [Fault.NONE, Fault.CANCEL, Fault.INTERRUPT, Fault.CLOSE]
FAMILIES = [
    Family('collect3', fam_collect,
           quick=dict(n=3, fault_kinds=NOF),
           thorough=dict(n=4, fault_kinds=NOF),
           reach=['none', 'failure'], bounds='collect of 3 (thorough 4) activities, one may fail'),
    Family('collect_fault', fam_collect,
           quick=dict(n=2, fault_kinds=ALLF, failing=False),
           thorough=dict(n=3, fault_kinds=ALLF, failing=True),
           reach=['cancel', 'interrupt', 'close', 'caller-hit'],
           bounds='collect with the caller removed at (c,p)'),
    Family('first3', fam_first,
           quick=dict(n=3, fault_kinds=NOF, counts=[None, 0, 1, 2, 3, 4],
                      consumers=[PROMPT, BREAK]),
           thorough=dict(n=3, fault_kinds=NOF, counts=[None, 0, 1, 2, 3, 4],
                         consumers=[PROMPT, SLOW, BREAK], failing=True),
           reach=['none', 'count-too-big', 'count-zero'],
           bounds='first of 3 activities, all counts'),
    Family('first_slow', fam_first,
           quick=dict(n=2, fault_kinds=NOF, counts=[None, 1, 2], consumers=[SLOW]),
           thorough=dict(n=3, fault_kinds=NOF, counts=[None, 2], consumers=[SLOW]),
           reach=['slow-consumer'], bounds='slow consumer'),
    Family('first_slow_failing', fam_first,
           quick=dict(n=2, fault_kinds=NOF, counts=[None, 1], consumers=[SLOW, BREAK], failing=True),
           reach=['failure'],
           bounds='an activity fails while the consumer is busy with an earlier result'),
    Family('first_fault', fam_first,
           quick=dict(n=2, fault_kinds=ALLF, counts=[None, 1], consumers=[PROMPT]),
           thorough=dict(n=3, fault_kinds=ALLF, counts=[None, 1, 2], consumers=[PROMPT, SLOW]),
           reach=['cancel', 'interrupt', 'close', 'caller-hit'],
           bounds='first with the caller removed at (c,p)'),
    Family('first_failing', fam_first,
           quick=dict(n=2, fault_kinds=NOF, counts=[None, 1], consumers=[PROMPT], failing=True),
           reach=['failure'], bounds='first with one failing activity'),
]
