"""what MANIFEST.json claims per property (tools/mkmanifest.py turns this into the manifest)"""

FIX_COMMITS = ['0369c7c', 'e5963ae', '7c0fb30', '7b59f02', '74366c8', 'b68f84c', 'a968b66', 'a15d91b', '2992cec', '3ad884d', '2fb3194', 'c94fb16', '8f1b2fe']

_NOTE = ('bounded: holds for every value of the symbolic inputs inside the boxes and sizes '
         'listed in the evidence file, nothing is claimed outside; trusted: CPython, z3, the '
         'sxv engine (validated per path by concrete re-execution), the reference model in '
         'the harness')

CLAIMS = {
    'C01': {
        'text': 'All weak orderings of the dates/delays of up to 3-4 concurrently waiting '
                'activities (9 kinds of timed wait, past/now/future/equal/infinite dates, any '
                'start time) are covered by solver-closed path exploration of the real loop, '
                'wait queue and timing primitives; each path proves exact resume dates against '
                'an independent clock model and the loop-level clock obligations. Coincidences '
                'of dates are single points a test would have to guess; here they are branch '
                'outcomes that are always explored. Families many / many_sd run 6-7 sleepers '
                'through every weak ordering of the pending dates on both wait queue backends; '
                'float_single / float_pair redo the exact-date obligations on IEEE doubles (z3 '
                'floating point theory). Families reuse / reuse_runs use one stored date '
                'notification object in successive phases of one simulation and in two consecutive '
                'simulations with symbolic start times (found defect F13).',
        'note': _NOTE,
    },
    'C04': {
        'text': 'Every exit cause of a scope (normal, body raises, child fails, until by date or '
                'flag, owner task cancelled, owner closed by an enclosing failure) strikes at a '
                'symbolic instant (c,p) relative to symbolic child durations; the solver closes '
                'the path set over all orderings/coincidences, each path proves containment from '
                'the log written by the tasks themselves (no task code after exit, all done, late '
                'spawn awaited, volatile closed last, late do() refused).',
        'note': _NOTE,
    },
    'C05': {
        'text': 'Failure dates and kinds of body and up to 3 children are symbolic / finite '
                'choices; every coincidence (simultaneous failures, failure during graceful '
                'shutdown, body and child failing in one step) is a solver-explored branch; the '
                'outcome of the block is compared by identity and order with the exceptions the '
                'program logged before raising them.',
        'note': _NOTE,
    },
    'C06': {
        'text': 'cancel(token) is issued at a symbolic instant (c,p) from an activity placed '
                'before or after the victim, against symbolic sleep lengths and start delay; '
                'awaiters start at symbolic dates; task.status is sampled at every activation. '
                'All orderings of these dates are closed by the solver.',
        'note': _NOTE,
    },
    'C07': {
        'text': 'Ten kinds of notification with symbolic parameters (dates before/at/after the '
                'entry), symbolic body/child durations, nested until-blocks and run(till=T): each '
                'path proves exit == min(trigger model, completion) and that later waits are '
                'exact; the trigger model is the independent clock model of C01.',
        'note': _NOTE,
    },
    'C09': {
        'text': 'Arrival and hold times of up to 3 contenders, nesting depth, re-request and one '
                'fault (cancel / until-interrupt / close) at a symbolic instant (c,p) with both '
                'attacker placements are explored to path closure; mutual exclusion, FIFO grants, '
                'availability (sampled at every activation) and final freeness are proved per path '
                'from the log the contenders write.',
        'note': _NOTE,
    },
    'C10': {
        'text': 'Put / get / close dates, consumer kinds and one fault at (c,p) on producer or '
                'consumer are symbolic; every path proves exactly-once delivery, put order, '
                'receiver order and close semantics from the log.',
        'note': _NOTE,
    },
    'C11': {
        'text': 'Subscription, put and close dates, consumer kinds, a slow consumer and one fault '
                'on a consumer are symbolic; every path proves that each consumer saw exactly the '
                'accepted puts logged after its own subscription, in order, in the time step of '
                'the put.',
        'note': _NOTE,
    },
    'C12': {
        'text': 'Capacities, amounts, arrival/hold times, modifier date/amount and the fault '
                'instant (c,p) (p up to 3-4 covers each postponement inside acquire and release) '
                'are symbolic; the conservation bounds are proved as SMT obligations at every '
                'activation boundary of every path, equality with the supply at quiescence.',
        'note': _NOTE,
    },
    'C13': {
        'text': 'Volumes, start offsets and the fault instant are symbolic exact rationals (z3 '
                'Reals, QF_LRA), limits/throughput concrete per configuration; the real windowed '
                'transfer loop is executed symbolically and every finish instant is proved equal '
                'to an independent processor-sharing fluid simulator on the same terms, for '
                'every ordering of starts, finishes and the fault.',
        'note': _NOTE + '; IEEE float rounding is outside the solver-decided claim (the statement '
                        'allows it); each validated path is additionally executed once with the '
                        'same numbers as Python floats and compared with the fluid model up to a '
                        'relative 1e-6 (concrete oracle on solver-chosen inputs)',
    },
    'C14': {
        'text': 'Period, body durations, start (up to +-10^12) and an enclosing deadline are '
                'symbolic; each path proves tick == start + j*p (interval) or previous end + p '
                '(delay), the yielded value, IntervalExceeded exactly at the first over-run, and '
                'a turn of a runnable spinner whenever body end and next tick share an instant.',
        'note': _NOTE,
    },
    'C16': {
        'text': 'Durations (ties, zero), count, consumer behaviour (prompt / slow / break), one '
                'failing activity and a fault on the caller at (c,p) are symbolic / finite '
                'choices; every path proves result order against the completion log, yield '
                'instants, the stop after count results and that no loser code runs afterwards.',
        'note': _NOTE,
    },
    'C08': {
        'text': 'Expression shape and atom kinds are finite choices, thresholds, tracked / '
                'resource values, change dates (zero gaps = revert within a step) and waiter '
                'start dates are symbolic; a reference evaluator over the raw atom states is '
                'proved equivalent to bool(derived condition) at every activation, true at every '
                'resume, and false for every waiter still suspended at each time-step boundary '
                'and at quiescence.',
        'note': _NOTE,
    },
    'C17': {
        'text': 'The class hierarchy itself is symbolic: an NxN matrix of z3 Booleans constrained '
                'to a partial order, served through a metaclass __subclasscheck__; the real '
                'MetaConcurrent matching code runs over every hierarchy with <= N classes, every '
                'choice of children (incl. one level of nested Concurrent) and handler entries; '
                'isinstance == issubclass == the documented rule as a z3 formula; replays use '
                'real classes with real inheritance. The except-clause is checked on a real '
                'hierarchy (known finding K01).',
        'note': _NOTE + '; code that inspects __mro__ of the symbolic classes is only judged by '
                        'the real-class replay (non-reproducing counterexamples = inconclusive)',
    },
    'C15': {
        'text': 'Sequences of runs (success, root raising, root returning a symbolic value, '
                'nested run, quiescence with eternal waiters) with symbolic starts/dates; and two '
                'real threads whose hand-over at every activation boundary is a solver-split '
                'choice, so all interleavings at activation granularity are paths; each thread '
                'must observe exactly its solo behaviour.',
        'note': _NOTE + '; thread pre-emption inside an activation is outside the claim',
    },
    'C20': {
        'text': 'One path family per entry of an operation x ready-state table covering the whole '
                'list of the statement; numeric arguments (dates at/before now, amounts 0..'
                'available, volumes, periods incl. 0) are symbolic, so e.g. "amount == 0" or '
                '"body time == period" are solver-found corner cases, not sampled values; fresh '
                'runnable spinners must get a turn before the operation completes unless the '
                'clock advanced.',
        'note': _NOTE,
    },
    'C03': {
        'text': 'One (thorough: two) of 35 uses of the public API with fresh symbolic arguments, '
                'its world drivers, and an attacker (cancel, double cancel, until-interrupt, '
                'close by a failing scope, cancel+close, close by an until-scope) at a symbolic '
                'instant (c,p) with both placements; family rare_ops adds first() with a backlog '
                'and a two-stage failing activity and a delayed task cancelled before its start; the probe checks every '
                'delivered signal against the activity it was created for and bounds the '
                'activations per time step; run() must end normally or with the program own '
                'exception on every path.',
        'note': _NOTE,
    },
    'C02': {
        'text': 'Programs of 2-3 activities over the op alphabet with symbolic leading dates: per '
                'path the FIFO oracle of the probe (schedule-call order == run order inside a '
                'time step), equality of the traces on the heap and the SortedDict backend '
                '(times by solver), identical traces of repeated real executions under heap '
                'perturbation in the concrete validation run, and a second exploration under '
                'python -O with another PYTHONHASHSEED whose paths (identified by their free decisions) must carry identical '
                'symbolic traces; float_absorb repeats the backend differential on IEEE doubles, '
                'where a positive delay can be absorbed by the date; phases re-uses one Tracked '
                'value and one Pipe in successive phases (equal comparisons = a path; repeated '
                'executions with a full garbage collection before every activation and with the '
                'collector off); huge_dates orders integer dates beyond 2**53 on both backends '
                '(float() of an exact symbolic number is decided cell by cell).',
        'note': _NOTE + '; the string-hash seed is varied only between the two explorations of the '
                        'post-check families (two seeds); IEEE doubles '
                        'only in family float_absorb',
    },
    'C19': {
        'text': 'Request dates, amounts, priorities, capacities (and filters / kinds as finite '
                'choices) are symbolic; a call-through monitor logs the exact moment of every '
                'grant; a sequential reference model per resource type is stepped through the '
                'log and every path proves: each grant is the one the policy serves next and is '
                'legal in that state, and at the end of every time step no request the policy '
                'would serve next is grantable.',
        'note': _NOTE,
    },
    'C18': {
        'text': 'Trigger, wait, timeout, interrupt and until dates are symbolic (waiting before / '
                'at / after the trigger, simultaneous members, two interrupts in one step, '
                'interrupt after the end are solver-explored branches); every path proves resume '
                'instants and values for processes and native activities, callbacks exactly once, '
                'second trigger refused, AllOf/AnyOf instants and exposed members, '
                'run(until) stopping exactly at the date / event, and the embedded case.',
        'note': _NOTE,
    },
}

NOT_APPLICABLE = {}
