"""what MANIFEST.json claims per property (tools/mkmanifest.py turns this into the manifest)"""

FIX_COMMITS = ['0369c7c', 'e5963ae', '7c0fb30']

_NOTE = ('bounded: holds for every value of the symbolic inputs inside the boxes and sizes '
         'listed in the evidence file, nothing is claimed outside; trusted: CPython, z3, the '
         'sxv engine (validated per path by concrete re-execution), the reference model in '
         'the harness')

CLAIMS = {
    'C01': {
        'text': 'All weak orderings of the dates/delays of up to 3-4 concurrently waiting '
                'activities (9 kinds of timed wait, past/now/future/equal/infinite dates, any '
                'start time) are covered by solver-closed path exploration of the real loop, '
                'wait queue and timing primitives; each path proves exact resume dates against '
                'an independent clock model and the loop-level clock obligations. Coincidences '
                'of dates are single points a test would have to guess; here they are branch '
                'outcomes that are always explored.',
        'note': _NOTE,
    },
}

NOT_APPLICABLE = {}
