"""
Program alphabet shared by C03 (kernel never fails on its own) and C02 (determinism): each op is
one use of a public usim primitive with fresh symbolic arguments, together with the helper
activities ("drivers") of the surrounding world that let it complete.
"""
from fractions import Fraction

from usim import (time, Scope, until, instant, eternity, Flag, Tracked, Lock, Queue, Channel,
                  Resources, Capacities, Pipe, interval, delay, first, collect, StreamClosed,
                  ResourcesUnavailable, IntervalExceeded, Concurrent)

from .kit import UserErr, now


class World:
    """the shared primitives of one program"""

    def __init__(self, E, log, real=False, params=None, fixed=None):
        self.E, self.log, self.real = E, log, real
        # fixed: {parameter suffix: concrete value} - secondary arguments that a family keeps
        # concrete to bound the number of date orderings
        self.fixed = fixed or {}
        # symbolic arguments by name: a program can be built several times (C02 runs it on
        # both wait queue backends) from the same arguments
        self.params = {} if params is None else params
        self.flag, self.flag2 = Flag(), Flag()
        self.tracked = Tracked(E.const(0))
        self.lock = Lock()
        self.queue = Queue()
        self.channel = Channel()
        self.res = Resources(0, x=E.const(2))
        self.cap = Capacities(0, x=E.const(2))
        self.pipe = Pipe(throughput=E.const(Fraction(2)))
        self.tasks = {}
        self.err = UserErr('program failure')

    def _fixed(self, name):
        suffix = name.rsplit('_', 1)[-1]
        if suffix in self.fixed:
            self.params[name] = self.E.const(self.fixed[suffix])
            return True
        return False

    def num(self, name, lo, hi):
        if name not in self.params and not self._fixed(name):
            self.params[name] = self.E.num(name, lo, hi, real=self.real)
        return self.params[name]

    def int(self, name, lo, hi):
        if name not in self.params and not self._fixed(name):
            self.params[name] = self.E.int(name, lo, hi)
        return self.params[name]

    def realnum(self, name, lo, hi):
        if name not in self.params and not self._fixed(name):
            self.params[name] = self.E.real(name, lo, hi)
        return self.params[name]


OPS = [
    'sleep', 'moment', 'after', 'before', 'instant', 'eternity',
    'flag.set', 'await flag', 'await ~flag', 'await f1&f2', 'await f|moment',
    'tracked.set', 'await tracked>=x',
    'lock', 'queue.put', 'await queue', 'for queue', 'channel.put', 'await channel', 'for channel',
    'borrow', 'borrow capacities', 'claim', 'pipe.transfer',
    'interval', 'delay', 'await task', 'collect', 'first',
    'scope', 'until', 'until true', 'raise',
    'scope failing', 'until graceful', 'first slow failing',
]
# ops with more free dates than the others: explored in a family of their own (C03 `rare_ops`)
RARE = ['first backlog failing', 'delayed cancelled', 'late spawn cancelled']


def make_op(W, name, tag):
    """returns (victim coroutine function, [driver coroutine functions])"""
    E, log = W.E, W.log
    n = lambda what, lo=0, hi=20: W.num('%s_%s' % (tag, what), lo, hi)      # noqa

    def L(event, *data):
        log(tag, event, *data)

    drivers = []

    if name == 'sleep':
        d = n('d')

        async def victim():
            await (time + d)
    elif name == 'moment':
        t = n('t', -10, 20)

        async def victim():
            await (time == t)
    elif name == 'after':
        t = n('t', -10, 20)

        async def victim():
            await (time >= t)
    elif name == 'before':
        t = n('t', -10, 20)

        async def victim():
            await (time < t)
    elif name == 'instant':
        async def victim():
            await instant
    elif name == 'eternity':
        async def victim():
            await eternity
    elif name == 'flag.set':
        async def victim():
            await W.flag.set()
            await W.flag.set(False)
    elif name in ('await flag', 'await ~flag', 'await f1&f2', 'await f|moment'):
        w = n('w')
        t = n('t', -10, 20) if name == 'await f|moment' else None

        async def victim():
            if name == 'await flag':
                await W.flag
            elif name == 'await ~flag':
                await (~W.flag2)
            elif name == 'await f1&f2':
                await (W.flag & ~W.flag2)
            else:
                await (W.flag | (time == t))

        async def driver():
            if name == 'await ~flag':
                await W.flag2.set()
            await (time + w)
            L('drive')
            if name == 'await ~flag':
                await W.flag2.set(False)
            else:
                await W.flag.set()
        drivers.append(driver)
    elif name == 'tracked.set':
        v = W.int('%s_v' % tag, -5, 5)

        async def victim():
            await W.tracked.set(v)
            await (W.tracked + 1)
    elif name == 'await tracked>=x':
        w = n('w')
        x = W.int('%s_x' % tag, -5, 5)
        v = W.int('%s_v' % tag, -5, 5)

        async def victim():
            await (W.tracked >= x)

        async def driver():
            await (time + w)
            L('drive')
            await W.tracked.set(v)
            await (time + 1)
            await W.tracked.set(W.E.const(5))
        drivers.append(driver)
    elif name == 'lock':
        w = n('w')
        h = n('h')

        async def victim():
            async with W.lock:
                L('locked')
                await (time + h)

        async def driver():          # a rival holding the lock until w, re-requesting afterwards
            async with W.lock:
                await (time + w)
            async with W.lock:
                L('rival-again')
        drivers.append(driver)
    elif name == 'queue.put':
        async def victim():
            try:
                await W.queue.put(tag)
                await W.queue.put(tag)
            except StreamClosed:        # documented: the queue was closed by another op
                L('closed')

        async def driver():
            try:
                L('got', await W.queue)
            except StreamClosed:
                L('driver-closed')
        drivers.append(driver)
    elif name in ('await queue', 'for queue'):
        w = n('w')

        async def victim():
            if name == 'await queue':
                L('got', await W.queue)
            else:
                async for item in W.queue:
                    L('got', item)

        async def driver():
            await (time + w)
            L('drive')
            await W.queue.put(1)
            await W.queue.put(2)
            await (time + 1)
            await W.queue.close()
        drivers.append(driver)
        r = n('r')

        async def rival():           # a second reader arriving at its own date
            await (time + r)
            try:
                L('rival-got', await W.queue)
            except StreamClosed:
                L('rival-closed')
        drivers.append(rival)
    elif name == 'channel.put':
        async def victim():
            try:
                await W.channel.put(tag)
            except StreamClosed:        # documented: the channel was closed by another op
                L('closed')

        async def driver():
            try:
                L('got', await W.channel)
            except StreamClosed:
                L('closed')
        drivers.append(driver)
    elif name in ('await channel', 'for channel'):
        w = n('w')

        async def victim():
            try:
                if name == 'await channel':
                    L('got', await W.channel)
                else:
                    async for item in W.channel:
                        L('got', item)
            except StreamClosed:
                L('closed')

        async def driver():
            await (time + w)
            L('drive')
            await W.channel.put(1)
            await W.channel.put(2)
            await W.channel.close()
        drivers.append(driver)
    elif name in ('borrow', 'borrow capacities', 'claim'):
        w = n('w')
        h = n('h')
        a = W.int('%s_a' % tag, 0, 2)
        sup = W.cap if name == 'borrow capacities' else W.res

        async def victim():
            try:
                async with (sup.claim(x=a) if name == 'claim' else sup.borrow(x=a)):
                    L('holding')
                    await (time + h)
            except ResourcesUnavailable:
                L('unavailable')

        async def driver():          # a rival holding everything until w
            async with sup.borrow(x=2):
                await (time + w)
        drivers.append(driver)
    elif name == 'pipe.transfer':
        v = W.realnum('%s_v' % tag, 0, 10)
        w = n('w')

        async def victim():
            await W.pipe.transfer(v)

        async def driver():
            await (time + w)
            await W.pipe.transfer(W.E.const(Fraction(3)), throughput=W.E.const(Fraction(2)))
        drivers.append(driver)
    elif name in ('interval', 'delay'):
        p = n('p', 0, 10)
        b = n('b', 0, 10)

        async def victim():
            k = 0
            try:
                async for _ in (interval(p) if name == 'interval' else delay(p)):
                    L('tick')
                    k += 1
                    if k == 2:
                        break
                    await (time + b)
            except IntervalExceeded:
                L('exceeded')
    elif name == 'await task':
        d = n('d')

        async def sub():
            await (time + d)
            return 1

        async def victim():
            async with Scope() as s:
                t = s.do(sub())
                L('result', await t)
    elif name in ('collect', 'first'):
        d1, d2 = n('d1'), n('d2')

        async def sub(d, r):
            await (time + d)
            return r

        async def victim():
            if name == 'collect':
                L('result', tuple(await collect(sub(d1, 'a'), sub(d2, 'b'))))
            else:
                async for r in first(sub(d1, 'a'), sub(d2, 'b'), count=1):
                    L('result', r)
    elif name in ('scope', 'until', 'until true'):
        d = n('d')
        u = n('u')

        async def sub():
            await (time + d)
            L('sub-end')

        async def victim():
            if name == 'scope':
                async with Scope() as s:
                    s.do(sub())
                    s.do(sub(), volatile=True)
            elif name == 'until':
                async with until(time + u) as s:
                    s.do(sub())
                    await eternity
            else:
                async with until(time >= now()) as s:       # already true on entry
                    s.do(sub())
                    await (time + u)
    elif name == 'scope failing':
        d = n('d')
        b = n('b')

        async def sub():
            await (time + d)
            L('sub-raise')
            raise W.err

        async def victim():
            try:
                async with Scope() as s:
                    s.do(sub())
                    await (time + b)
            except Concurrent:
                L('concurrent')
    elif name == 'until graceful':
        d = n('d')
        u = n('u')

        async def sub():
            await (time + d)
            L('sub-end')

        async def victim():
            async with until(time + u) as s:       # the body ends at once, the scope waits
                s.do(sub())
    elif name == 'first slow failing':
        d1, d2 = n('d1'), n('d2')
        b = n('b')

        async def sub(d, r):
            await (time + d)
            return r

        async def failing(d):
            await (time + d)
            L('sub-raise')
            raise W.err

        async def victim():
            try:
                async for r in first(sub(d1, 'a'), failing(d2), count=None):
                    L('result', r)
                    await (time + b)        # busy consumer: the failure may strike here
            except Concurrent:
                L('concurrent')
    elif name == 'first backlog failing':
        # a busy consumer with a result already buffered when it asks for the next one, and an
        # activity that fails in two stages: its second delay may start after the consumer's, so
        # that its failure is queued behind the consumer's wake-up of the same time step
        d1, d2 = n('d1', 0, 6), n('d2', 0, 6)
        e1, e2 = n('e1', 0, 6), n('e2', 0, 6)
        b = n('b', 0, 6)

        async def sub(d, r):
            await (time + d)
            return r

        async def failing():
            await (time + e1)
            await (time + e2)
            L('sub-raise')
            raise W.err

        async def victim():
            try:
                async for r in first(sub(d1, 'a'), sub(d2, 'b'), failing(), count=None):
                    L('result', r)
                    await (time + b)
            except Concurrent:
                L('concurrent')
    elif name == 'delayed cancelled':
        # a task with a start delay that is cancelled before / after the first turn of its
        # wrapper, in a scope whose body may end before the start date
        d = n('d')
        b = n('b')
        p = W.E.pick('%s_turns' % tag, 3)

        async def sub():
            L('sub-start')
            await (time + 1)

        async def victim():
            async with Scope() as s:
                t = s.do(sub(), after=d)
                t2 = s.do(sub(), at=now() + d)
                for _ in range(p):
                    await instant
                t.cancel()
                t2.cancel()
                await (time + b)
    elif name == 'late spawn cancelled':
        # the owner already waits in the exit of its scope; children finishing at symbolic dates
        # (also in one time step, in either order), one of them spawns a further task into the
        # scope and cancels it before it started
        d1 = n('d1')
        d2 = n('d2')

        async def sub():
            L('sub-start')
            await (time + 1)

        async def victim():
            async with Scope() as s:
                async def a():
                    await (time + d1)

                async def b():
                    await (time + d2)
                    t = s.do(sub())
                    t.cancel()
                    L('spawned-and-cancelled')
                s.do(a())
                s.do(b())
    elif name == 'raise':
        d = n('d')

        async def victim():
            await (time + d)
            L('raise')
            raise W.err
    else:
        raise AssertionError(name)

    async def wrapped():
        L('begin')
        await victim()
        L('end')

    def safe(drv):
        # a world driver that finds its stream closed by another op's driver just stops
        async def run():
            try:
                await drv()
            except StreamClosed:
                L('driver-closed')
        return run
    return wrapped, [safe(d) for d in drivers]
