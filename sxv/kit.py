"""
Scenario toolkit shared by the property harnesses (DESIGN 4.2): logging, running a simulation
under the probe, fault injectors.
"""
import usim
from usim import time, Scope, until, run, instant, eternity
from usim._core import loop as _loop
from usim._core.handler import __USIM_STATE__ as STATE
from usim._core.loop import Interrupt

from .engine import E, EQ, GE, LE, LT, GT, NE, AND, OR, NOT, IMPLIES, ITE, MIN, MAX, SNum, INF
from .probe import Probe, Livelock, RunawayRun


class UserErr(Exception):
    """exception type owned by the harness programs"""


class UserErrA(UserErr):
    pass


class UserErrB(UserErr):
    pass


def now():
    return STATE.loop.time


def turn():
    return STATE.loop.turn


class Log:
    """append-only event log: (actor, event, time, data...); silent once the run is over"""

    def __init__(self, note=True):
        self.events = []
        self.active = True
        self.note = note

    def __call__(self, actor, event, *data):
        if not self.active:
            return
        try:
            t = STATE.loop.time
        except RuntimeError:
            return
        rec = (actor, event, t) + data
        self.events.append(rec)
        if self.note:
            E.note(*rec)

    def of(self, actor, event=None):
        return [e for e in self.events if e[0] == actor and (event is None or e[1] == event)]

    def first(self, actor, event):
        for e in self.events:
            if e[0] == actor and e[1] == event:
                return e
        return None

    def has(self, actor, event):
        return self.first(actor, event) is not None


class Outcome:
    def __init__(self):
        self.exc = None
        self.probe = None
        self.end_time = None

    @property
    def ok(self):
        return self.exc is None


def simulate(*roots, start=0, till=None, log=None, probe=None, waitqueue=None, wrap_start=True):
    """usim.run(*roots) under the probe; any exception leaving run() is captured"""
    out = Outcome()
    probe = probe or Probe()
    out.probe = probe
    E.hold(roots)
    if wrap_start:
        start = E.const(start) if isinstance(start, int) else start
    old_wq = _loop.WaitQueue
    if waitqueue is not None:
        _loop.WaitQueue = waitqueue
    try:
        with probe.installed():
            try:
                if till is None:
                    run(*roots, start=start)
                else:
                    run(*roots, start=start, till=till)
            except BaseException as err:     # noqa: everything is classified by the oracle
                if E.void or type(err).__name__ == 'HarnessError':
                    raise
                out.exc = err
    finally:
        _loop.WaitQueue = old_wq
        if log is not None:
            log.active = False
    if probe.activations:
        out.end_time = probe.activations[-1][1]
    return out


def leaves(exc):
    """flatten (nested) Concurrent into its leaf exceptions"""
    if isinstance(exc, usim.Concurrent):
        out = []
        for c in exc.children:
            out.extend(leaves(c))
        return out
    return [exc]


def classify_run_exception(exc, allowed=(UserErr,)):
    """None if `exc` is something the program itself raised, else a description"""
    if exc is None:
        return None
    if isinstance(exc, (Livelock, RunawayRun)):
        return 'livelock: %r' % (exc,)
    for leaf in leaves(exc):
        if not isinstance(leaf, allowed):
            return 'run() ended with %s: %r' % (type(leaf).__name__, leaf)
    return None


async def spin(n):
    """n postponements"""
    for _ in range(n):
        await instant


async def at_cp(c, p):
    """advance to date c (if in the future) and then p turns further"""
    if c > now():
        await (time == c)
    i = 0
    while i < p:
        await instant
        i += 1
