"""
Scenario toolkit shared by the property harnesses (DESIGN 4.2): logging, running a simulation
under the probe, fault injectors.
"""
import usim
from usim import time, Scope, until, run, instant, eternity
from usim._core import loop as _loop
from usim._core.handler import __USIM_STATE__ as STATE
from usim._core.loop import Interrupt

from .engine import E, EQ, GE, LE, LT, GT, NE, AND, OR, NOT, IMPLIES, ITE, MIN, MAX, SNum, INF
from .probe import Probe, Livelock, RunawayRun


class UserErr(Exception):
    """exception type owned by the harness programs.  Instances of one class compare *equal*
    (value equality, as user-defined exceptions often have) although they are distinct objects:
    the framework must tell failures apart by identity, the oracles do"""

    def __eq__(self, other):
        return type(other) is type(self)

    def __ne__(self, other):
        return not self.__eq__(other)

    def __hash__(self):
        return hash(type(self))

    def __bool__(self):
        # ... and they are *falsy* (like an exception class with an empty payload that defines
        # __len__): whether something failed must never be decided by the truth value of the
        # exception object
        return False


class UserErrA(UserErr):
    pass


class UserErrB(UserErr):
    pass


def now():
    return STATE.loop.time


def turn():
    return STATE.loop.turn


class Log:
    """append-only event log: (actor, event, time, data...); silent once the run is over"""

    def __init__(self, note=True):
        self.events = []
        self.active = True
        self.note = note

    def __call__(self, actor, event, *data):
        if not self.active:
            return
        try:
            t = STATE.loop.time
        except RuntimeError:
            return
        rec = (actor, event, t) + data
        self.events.append(rec)
        if self.note:
            E.note(*rec)

    def of(self, actor, event=None):
        return [e for e in self.events if e[0] == actor and (event is None or e[1] == event)]

    def first(self, actor, event):
        for e in self.events:
            if e[0] == actor and e[1] == event:
                return e
        return None

    def pos(self, rec):
        """index of a record by identity (never compare records with ==: that would ask the
        solver about the numbers inside)"""
        for i, e in enumerate(self.events):
            if e is rec:
                return i
        raise ValueError('record not in log')

    def has(self, actor, event):
        return self.first(actor, event) is not None


class Outcome:
    def __init__(self):
        self.exc = None
        self.probe = None
        self.end_time = None

    @property
    def ok(self):
        return self.exc is None


def simulate(*roots, start=0, till=None, log=None, probe=None, waitqueue=None, wrap_start=True):
    """usim.run(*roots) under the probe; any exception leaving run() is captured"""
    out = Outcome()
    probe = probe or Probe()
    out.probe = probe
    E.hold(roots)
    if wrap_start:
        start = E.const(start) if isinstance(start, int) else start
    old_wq = _loop.WaitQueue
    if waitqueue is not None:
        _loop.WaitQueue = waitqueue
    try:
        with probe.installed():
            try:
                if till is None:
                    run(*roots, start=start)
                else:
                    run(*roots, start=start, till=till)
            except BaseException as err:     # noqa: everything is classified by the oracle
                if E.void or type(err).__name__ == 'HarnessError':
                    raise
                out.exc = err
    finally:
        _loop.WaitQueue = old_wq
        if log is not None:
            log.active = False
    if probe.activations:
        out.end_time = probe.activations[-1][1]
    return out


def leaves(exc):
    """flatten (nested) Concurrent into its leaf exceptions"""
    if isinstance(exc, usim.Concurrent):
        out = []
        for c in exc.children:
            out.extend(leaves(c))
        return out
    return [exc]


def classify_run_exception(exc, allowed=(UserErr,)):
    """None if `exc` is something the program itself raised, else a description"""
    if exc is None:
        return None
    if isinstance(exc, (Livelock, RunawayRun)):
        return 'livelock: %r' % (exc,)
    for leaf in leaves(exc):
        if not isinstance(leaf, allowed):
            return 'run() ended with %s: %r' % (type(leaf).__name__, leaf)
    return None


class Payload(tuple):
    """a message / item put into a stream: a tuple (producer, number) that is *falsy* when
    producer + number is even - a valid payload (0, None, '' and empty containers are), which the
    framework must never judge by its truth value"""
    __slots__ = ()

    def __bool__(self):
        first = self[0] if isinstance(self[0], int) else 0
        return (first + self[-1]) % 2 == 1


async def spin(n):
    """n postponements"""
    for _ in range(n):
        await instant


async def at_cp(c, p, direct=False):
    """advance to date c (if in the future) and then p turns further.
    `time == c` resumes its waiter through a trigger activation, i.e. *behind* everything that
    was queued for c by a plain delay before the trigger ran; with direct=True the wait is a
    plain delay itself, so an activity that started earlier than a sleeper also runs before it
    at c (used by the fault injectors when the attacker is placed first)"""
    if c > now():
        if direct:
            await (time + (c - now()))
        else:
            await (time == c)
    i = 0
    while i < p:
        await instant
        i += 1


class _CloseNow(Exception):
    """raised by the body of the enclosing scope of a CLOSE fault"""


class Fault:
    """
    A fault striking one victim activity at a symbolic instant (c, p): date c, then p turns.
      CANCEL     task.cancel() from another activity
      INTERRUPT  the victim runs inside `async with until(flag)`, the flag is set at (c, p)
      CLOSE      the victim's task lives in a scope whose body raises at (c, p): the task is
                 closed synchronously (GeneratorExit)
      CANCEL_CLOSE  as CLOSE, with task.cancel() issued in the same turn just before
      CLOSE_UNTIL   the victim's task is a child of `until(flag)`, the flag is set at (c, p): the
                 task is closed by a scope that ends *without* an exception of its own (which
                 would take precedence over whatever goes wrong while closing)
    `first` places the attacker before / after the victim in the run queue, so that together
    with p every activation boundary of the victim inside a time step is covered.
    """
    NONE, CANCEL, INTERRUPT, CLOSE, CANCEL_CLOSE, CLOSE_UNTIL = range(6)
    NAMES = ['none', 'cancel', 'interrupt', 'close', 'cancel+close', 'close by until']

    def __init__(self, E_, name, kinds, lo=0, hi=30, pmax=2, real=False, placements=True):
        self.name = name
        self.kind = kinds[E_.pick(name + '_fault', len(kinds))]
        if self.kind != Fault.NONE:
            self.c = E_.num(name + '_c', lo, hi, real=real)
            self.p = E_.pick(name + '_p', pmax)
            self.first = E_.flag(name + '_first') if placements else False
        else:
            self.c = self.p = None
            self.first = False
        self.flag = usim.Flag()
        self.task = None
        self.struck = None     # (time) when the attacker acted
        self.log = None

    def spawn(self, scope, make_victim, log=None):
        """start victim (a zero-argument coroutine function) in `scope` together with its attacker"""
        self.log = log
        kind = self.kind
        if kind == Fault.NONE:
            self.task = scope.do(make_victim())
            return self.task
        if kind in (Fault.CLOSE, Fault.CANCEL_CLOSE):
            scope.do(self._enclosing(make_victim))
            return None
        if self.first:
            scope.do(self._attacker())
        if kind == Fault.CLOSE_UNTIL:
            scope.do(self._enclosing_until(make_victim))
        elif kind == Fault.INTERRUPT:
            self.task = scope.do(self._interruptible(make_victim))
        else:
            self.task = scope.do(make_victim())
        if not self.first:
            scope.do(self._attacker())
        return self.task

    def _note(self):
        self.struck = now()
        if self.log is not None:
            self.log(self.name, 'fault', Fault.NAMES[self.kind])

    async def _attacker(self):
        await at_cp(self.c, self.p, direct=self.first)
        self._note()
        if self.kind == Fault.CANCEL:
            self.task.cancel()
        else:
            await self.flag.set()

    async def _interruptible(self, make_victim):
        async with until(self.flag):
            await make_victim()

    async def _enclosing_until(self, make_victim):
        async with until(self.flag) as enc:
            self.task = enc.do(make_victim())
            await eternity

    async def _enclosing(self, make_victim):
        try:
            async with Scope() as enc:
                self.task = enc.do(make_victim())
                await at_cp(self.c, self.p, direct=self.first)
                self._note()
                if self.kind == Fault.CANCEL_CLOSE:
                    # cancelled and, in the same turn, closed with its abandoned scope
                    self.task.cancel()
                raise _CloseNow()
        except _CloseNow:
            pass
