"""
./run.sh check CNN quick|thorough [--family NAME] [--selftest]
./run.sh replay <file>
"""
import importlib
import json
import os
import subprocess
import sys
import time as _time

HERE = os.path.dirname(os.path.dirname(os.path.abspath(__file__)))
REPO = os.path.realpath(os.environ.get('USIM_REPO', '/repo'))
# mutant trials (tools/try_mutant_wt.sh) redirect evidence/ and replays/ so that the committed
# evidence of /verif is never overwritten by a run on a patched scratch worktree
OUT = os.environ.get('VERIF_OUT') or HERE

TECHNIQUE = ('symbolic execution of the real usim sources on z3 (numbers are z3 terms, '
             'every comparison decided by the solver, exhaustive path closure within the '
             'stated bounds), per-path SMT obligations, counterexamples replayed concretely')


def _known():
    p = os.path.join(HERE, 'known_findings.json')
    if not os.path.exists(p):
        return []
    return json.load(open(p)).get('findings', [])


def _match_known(pid, family, rec, known):
    from .engine import dec_inputs
    for k in known:
        if k.get('status') != 'known' or k['property'] != pid:
            continue
        if k.get('family') not in (None, family):
            continue
        if k.get('label') not in (None, rec['label']):
            continue
        where = k.get('where')
        if where:
            try:
                if not eval(where, {'__builtins__': {}}, dict(dec_inputs(rec['inputs']))):
                    continue
            except Exception:
                continue
        return k
    return None


def _git_head(path):
    try:
        return subprocess.run(['git', '-C', path, 'rev-parse', '--short', 'HEAD'],
                              capture_output=True, text=True).stdout.strip()
    except Exception:
        return ''


def cmd_check(pid, tier, only=None, selftest=False):
    from . import explore as X
    seed = int(os.environ.get('VERIF_SEED', '0') or 0)
    modname = 'sxv.props.%s' % pid.lower()
    mod = importlib.import_module(modname)
    known = _known()
    t0 = _time.perf_counter()
    reports = []
    new_violations = []      # reproduced, not known
    known_hits = {}
    harness_errors = []
    inconclusive = []
    os.makedirs(os.path.join(OUT, 'replays'), exist_ok=True)
    os.makedirs(os.path.join(OUT, 'evidence'), exist_ok=True)
    dump_max = 40 if tier == 'thorough' else 0
    for fam in mod.FAMILIES:
        if only and fam.name not in only:
            continue
        if fam.config(tier) is None:
            continue
        def classify(v, _f=fam.name):
            k = _match_known(pid, _f, v, known)
            return k['id'] if k else None
        try:
            rep = X.explore(modname, fam, tier, seed=seed, selftest=selftest, dump_max=dump_max,
                            classify=classify, want_digest=getattr(mod, 'WANT_DIGEST', False))
        except Exception as err:     # noqa
            if type(err).__name__ != 'BrokenProcessPool':
                raise
            # a worker died (signal): no verdict for this family, never a VIOLATION line
            harness_errors.append('%s: a worker process died while exploring this family (%s)'
                                  % (fam.name, err))
            continue
        for kid, cnt in rep['known_hits'].items():
            k = next(k for k in known if k['id'] == kid)
            known_hits.setdefault(kid, [k, 0])[1] += cnt
        reports.append(rep)
        print('[%s/%s] %d paths in %.1fs, %d decisions, %d obligations (%d discharged), '
              'status %s%s' % (pid, fam.name, rep['paths'], rep['wall_s'], rep['decisions'],
                               rep['obligations'], rep['discharged'], rep['status'],
                               '' if rep['exhaustive'] else ' NOT-EXHAUSTIVE'), flush=True)
        for st in ('error', 'unfaithful', 'nondet'):
            if rep['status'].get(st):
                harness_errors.append('%s: %d paths with status %s: %s' % (
                    fam.name, rep['status'][st], st,
                    next((i['detail'] for i in rep['issues'] if i['status'] == st), '')))
        if rep['unreached'] and rep['stopped'] is None and not selftest:
            harness_errors.append('%s: reachability labels never reached: %s' % (
                fam.name, rep['unreached']))
        if rep['stopped'] or rep['status'].get('poisoned'):
            inconclusive.append('%s: %s; %d poisoned paths, %d prefixes left' % (
                fam.name, rep['stopped'], rep['status'].get('poisoned', 0), rep['leftover']))
        n = 0
        for v in rep['violations']:
            if selftest and v['label'] == 'SELFTEST-unreachable-end':
                continue
            if not v['reproduced'] and fam.nonrepro == 'inconclusive':
                inconclusive.append('%s: counterexample for %s did not reproduce in the '
                                    'concrete replay on real objects (inputs %s)' % (
                                        fam.name, v['label'], v['inputs']))
                continue
            if not v['reproduced']:
                harness_errors.append(
                    '%s: counterexample for %s did not reproduce concretely (inputs %s, '
                    'concrete failed %s %s)' % (fam.name, v['label'], v['inputs'],
                                                v['concrete_failed'], v['concrete_detail']))
                continue
            n += 1
            path = os.path.join(OUT, 'replays', '%s-%s-%d.json' % (pid, fam.name, n))
            json.dump({'property': pid, 'family': fam.name, 'tier': tier, 'label': v['label'],
                       'inputs': v['inputs'], 'detail': v['detail']}, open(path, 'w'), indent=1)
            new_violations.append((fam.name, v, path))
        if selftest:
            twins = [v for v in rep['violations'] if v['label'] == 'SELFTEST-unreachable-end']
            if not twins or not all(v['reproduced'] for v in twins):
                harness_errors.append('%s: selftest twin produced no reproduced violation'
                                      % fam.name)
    post = None
    if hasattr(mod, 'post_check') and not selftest:
        post, problems = mod.post_check(pid, tier, reports, seed)
        for kind, text in problems:
            if kind == 'violation':
                path = os.path.join(OUT, 'replays', '%s-postcheck-%d.json' % (
                    pid, len(new_violations) + 1))
                json.dump({'property': pid, 'kind': 'post_check', 'tier': tier, 'detail': text,
                           'family': text.split(':')[0], 'label': 'assertion-mode-differential',
                           'inputs': {}}, open(path, 'w'), indent=1)
                new_violations.append((text.split(':')[0], {
                    'label': 'assertion-mode-differential', 'inputs': {}, 'detail': text,
                    'reproduced': True}, path))
            else:
                harness_errors.append(text)
    wall = _time.perf_counter() - t0
    cvc5 = None
    if tier == 'thorough' and not selftest:
        from .xcheck import crosscheck
        cvc5 = crosscheck([q for r in reports for q in r['dump']], seed)
        if cvc5['disagreements']:
            harness_errors.append('cvc5 disagrees with z3 on %d queries' % cvc5['disagreements'])
    if not selftest:
        _write_evidence(pid, tier, seed, mod, reports, new_violations, known_hits,
                        harness_errors, inconclusive, wall, cvc5, post)
    for kid, (k, cnt) in sorted(known_hits.items()):
        print('KNOWN-FINDING: property=%s %s [%s, %d counterexample paths]' % (
            pid, k['text'], kid, cnt))
    for line in inconclusive:
        print('INCONCLUSIVE %s' % line)
    for line in harness_errors:
        print('HARNESS-ERROR %s' % line)
    seen = set()
    for famname, v, path in new_violations:
        key = (famname, v['label'])
        if key in seen:
            continue
        seen.add(key)
        print('VIOLATION property=%s replay=%s   # family=%s label=%s inputs=%s %s' % (
            pid, path, famname, v['label'], v['inputs'], v['detail'][:300]))
    if new_violations:
        return 1
    if harness_errors:
        return 2
    total = sum(r['paths'] for r in reports)
    print('%s %s: held on all %d paths of %d families (%.1fs)%s' % (
        pid, tier, total, len(reports), wall,
        '' if not inconclusive else '  [some families inconclusive]'))
    return 0


def _write_evidence(pid, tier, seed, mod, reports, new_violations, known_hits, harness_errors,
                    inconclusive, wall, cvc5, post=None):
    functions = sorted(set().union(*[r['functions'] for r in reports])) if reports else []
    samples = []
    for r in reports:
        for s in r['samples'][:2]:
            samples.append(dict(s, family=r['family']))
    for famname, v, path in new_violations[:5]:
        samples.append({'family': famname, 'counterexample': v['inputs'], 'label': v['label']})
    if not samples:
        samples = [{'note': 'no path completed'}]
    fams = {}
    for r in reports:
        fams[r['family']] = {
            'params': r['params'], 'bounds': r['bounds'], 'paths': r['paths'],
            'status': r['status'], 'max_decisions_on_a_path': r['max_depth'],
            'decisions': r['decisions'], 'forks': r['forks'],
            'obligations': r['obligations'], 'discharged': r['discharged'],
            'violating_paths': r['n_violation_paths'], 'violated_labels': r['labels'],
            'reach': sorted(r['reached']), 'unreached': r['unreached'],
            'exhaustive': r['exhaustive'], 'stopped': r['stopped'], 'leftover': r['leftover'],
            'validated_paths': r['validated'], 'wall_s': round(r['wall_s'], 2),
            'solver_s_cpu': round(r['solver_s'], 2),
            'queries': {'sat': r['q_sat'], 'unsat': r['q_unsat'], 'unknown': r['q_unknown']},
            'issues': r['issues'][:3],
        }
    paths = sum(r['paths'] for r in reports)
    ev = {
        'property_id': pid,
        'tier': tier,
        'seed': seed,
        'level': 'model_checking',
        'coverage': {
            'states': paths,
            'transitions': sum(r['decisions'] for r in reports),
            'traces_validated_against_impl': sum(r['validated'] for r in reports),
            'samples': samples,
            'evaluations': paths,
            'distinct_nontrivial': sum(r['nontrivial'] for r in reports),
            'rule': 'one evaluation = one execution path of the real usim code through a '
                    'harness family, identified by its sequence of solver-decided branch '
                    'outcomes (path conditions are pairwise disjoint, so paths are distinct '
                    'by construction); non-trivial = the path condition contains at least one '
                    'solver-decided comparison on a symbolic input',
            'obligations': sum(r['obligations'] for r in reports),
            'discharged': sum(r['discharged'] for r in reports),
            'exhaustive': bool(reports) and all(r['exhaustive'] for r in reports),
            'queries': {k: sum(r['q_' + k] for r in reports) for k in ('sat', 'unsat', 'unknown')},
            'solver_s_cpu': round(sum(r['solver_s'] for r in reports), 2),
            'functions_encoded': functions,
            'families': fams,
            'bounds': getattr(mod, 'BOUNDS', ''),
            'inconclusive': inconclusive,
            'harness_errors': harness_errors,
            'known_findings_hit': {k: c for k, (_, c) in known_hits.items()},
            'cvc5_crosscheck': cvc5,
            'post_check': post,
            'static_scan': getattr(mod, 'static_scan', lambda: None)(),
            'technique': TECHNIQUE,
            'repo_head': _git_head(REPO),
        },
        'assumptions': list(getattr(mod, 'ASSUMPTIONS', [])) + [
            'CPython 3.12 executes the harness and usim; z3 5.1.0 decides every query '
            '(timeout 10 s per query, unknown = inconclusive)',
            'claim is bounded: only the families, sizes and value boxes listed under '
            'coverage.families / coverage.bounds',
        ],
        'wall_s': round(wall, 2),
        'violations': len(new_violations),
    }
    path = os.path.join(OUT, 'evidence', '%s.json' % pid)
    tmp = path + '.tmp'
    json.dump(ev, open(tmp, 'w'), indent=1, default=str)
    os.replace(tmp, path)


def cmd_digests(pid, tier, out, fams):
    """explore families and dump {family: {path key: [trace digests]}} (used under python -O)"""
    from . import explore as X
    modname = 'sxv.props.%s' % pid.lower()
    mod = importlib.import_module(modname)
    res = {}
    for fam in mod.FAMILIES:
        if fam.name not in fams or fam.config(tier) is None:
            continue
        cfg = dict(fam.tiers[tier])
        cfg['_validate_every'] = 0
        fam.tiers[tier] = cfg
        rep = X.explore(modname, fam, tier, want_digest=True)
        if not rep['exhaustive']:
            print('not exhaustive: %s %s' % (fam.name, rep['status']))
            return 3
        res[fam.name] = rep['digests']
    json.dump(res, open(out, 'w'))
    return 0


def cmd_replay(path):
    from .engine import run_concrete, dec_inputs
    d = json.load(open(path))
    if d.get('kind') == 'post_check':
        return cmd_check(d['property'], d.get('tier', 'quick'), [d['family']])
    mod = importlib.import_module('sxv.props.%s' % d['property'].lower())
    fam = {f.name: f for f in mod.FAMILIES}[d['family']]
    params, _ = fam.config(d.get('tier', 'quick'))
    res = run_concrete(fam.fn, params, dec_inputs(d['inputs']))
    print('replay %s family=%s inputs=%s' % (d['property'], d['family'], d['inputs']))
    print(' status=%s failed obligations=%s' % (res['status'], res['failed']))
    if res['detail']:
        print(res['detail'])
    for n in res['notes'][:80]:
        print('  ', n)
    if d['label'] in res['failed']:
        print('VIOLATION property=%s replay=%s   # label=%s reproduced' % (
            d['property'], path, d['label']))
        return 1
    print('not reproduced')
    return 0


def main(argv):
    if len(argv) >= 2 and argv[0] == 'check':
        pid = argv[1].upper()
        tier = argv[2] if len(argv) > 2 and not argv[2].startswith('-') else \
            os.environ.get('VERIF_TIER', 'quick')
        only = [a.split('=', 1)[1] for a in argv if a.startswith('--family=')]
        return cmd_check(pid, tier, only or None, selftest='--selftest' in argv)
    if len(argv) >= 2 and argv[0] == 'selftest':
        return cmd_check(argv[1].upper(), argv[2] if len(argv) > 2 else 'quick', None, True)
    if len(argv) >= 4 and argv[0] == 'digests':
        return cmd_digests(argv[1].upper(), argv[2], argv[3], argv[4:])
    if len(argv) == 2 and argv[0] == 'replay':
        return cmd_replay(argv[1])
    print(__doc__)
    return 2


if __name__ == '__main__':
    sys.exit(main(sys.argv[1:]))
